//! Interpreter: grammar AST → real chumsky combinators (boxed at every node).
//!
//! Every closure of the closed library is implemented here exactly as in lean/ChumskyModel/Model/Basic.lean.

use chumsky::extra;
use chumsky::input::ValueInput;
use chumsky::prelude::*;
use chumsky::primitive::select;
use chumsky::recursive::{Indirect, Recursive};
use chumsky::{ConfigIterParser, ConfigParser, IterParser, Parser};

use crate::ast::*;
use crate::val::*;

pub type Ex<E> = extra::Full<E, Insp, Val>;
pub type BP<'src, I, E> = Boxed<'src, 'src, I, Val, Ex<E>>;
pub type Rec<'src, I, E> = Recursive<Indirect<'src, 'src, I, Val, Ex<E>>>;

/// Input kinds the interpreter can build parsers for.
pub trait HInput<'src>: ValueInput<'src, Token = char, Span = Sp> + Sized + 'src {
    /// `p.to_slice()` mapped to an offset range relative to `base` (address of the caller's buffer)
    fn to_slice<E: HErr<'src, Self>>(p: BP<'src, Self, E>, base: usize) -> BP<'src, Self, E>;
    /// `any_ref()` where the kind implements `BorrowInput`, `any()` otherwise
    fn any_ref_p<E: HErr<'src, Self>>() -> BP<'src, Self, E> {
        any().map(|c: char| Val::Tok(c as u32)).boxed()
    }
    /// `select_ref!` where the kind implements `BorrowInput`, `select!` otherwise
    fn select_ref_p<E: HErr<'src, Self>>(cs: Vec<char>) -> BP<'src, Self, E> {
        select(move |c: char, _| if cs.contains(&c) { Some(Val::tag(7, Val::Tok(c as u32))) } else { None }).boxed()
    }
}

/// the by-reference primitives, for input kinds that implement `BorrowInput`
macro_rules! borrow_prims {
    () => {
        fn any_ref_p<E: HErr<'src, Self>>() -> BP<'src, Self, E> {
            chumsky::primitive::any_ref().map(|c: &'src char| Val::Tok(*c as u32)).boxed()
        }
        fn select_ref_p<E: HErr<'src, Self>>(cs: Vec<char>) -> BP<'src, Self, E> {
            chumsky::primitive::select_ref(move |c: &'src char, _| {
                if cs.contains(c) {
                    Some(Val::tag(7, Val::Tok(*c as u32)))
                } else {
                    None
                }
            })
            .boxed()
        }
    };
}

impl<'src> HInput<'src> for &'src str {
    fn to_slice<E: HErr<'src, Self>>(p: BP<'src, Self, E>, base: usize) -> BP<'src, Self, E> {
        p.to_slice()
            .map(move |s: &'src str| {
                let base = base + crate::run::BASE.with(|b| b.get());
                let off = s.as_ptr() as usize - base;
                Val::Slice(off, off + s.len())
            })
            .boxed()
    }
}

impl<'src> HInput<'src> for &'src [char] {
    borrow_prims!();
    fn to_slice<E: HErr<'src, Self>>(p: BP<'src, Self, E>, base: usize) -> BP<'src, Self, E> {
        p.to_slice()
            .map(move |s: &'src [char]| {
                let base = base + crate::run::BASE.with(|b| b.get());
                let off = (s.as_ptr() as usize - base) / core::mem::size_of::<char>();
                Val::Slice(off, off + s.len())
            })
            .boxed()
    }
}

pub type PairSlice<'src> = &'src [(char, Sp)];
pub type MappedSlice<'src> =
    chumsky::input::MappedInput<char, Sp, PairSlice<'src>, fn(&'src (char, Sp)) -> (&'src char, &'src Sp)>;
pub type CharStream = chumsky::input::Stream<std::vec::IntoIter<char>>;
pub type PairStream = chumsky::input::Stream<std::vec::IntoIter<(char, Sp)>>;
pub type MappedStream = chumsky::input::MappedInput<char, Sp, PairStream, fn((char, Sp)) -> (char, Sp)>;

pub fn proj_pair<'a>(t: &'a (char, Sp)) -> (&'a char, &'a Sp) {
    (&t.0, &t.1)
}
pub fn id_pair(t: (char, Sp)) -> (char, Sp) {
    t
}

impl<'src> HInput<'src> for MappedSlice<'src> {
    borrow_prims!();
    fn to_slice<E: HErr<'src, Self>>(_p: BP<'src, Self, E>, _base: usize) -> BP<'src, Self, E> {
        panic!("harness: to_slice unsupported for this input kind")
    }
}
impl<'src> HInput<'src> for CharStream {
    fn to_slice<E: HErr<'src, Self>>(_p: BP<'src, Self, E>, _base: usize) -> BP<'src, Self, E> {
        panic!("harness: to_slice unsupported for this input kind")
    }
}
impl<'src> HInput<'src> for MappedStream {
    fn to_slice<E: HErr<'src, Self>>(_p: BP<'src, Self, E>, _base: usize) -> BP<'src, Self, E> {
        panic!("harness: to_slice unsupported for this input kind")
    }
}

/// a counting, lower-bound-0 iterator: records every item it yields (index into the source) in a thread-local log
pub struct CountIter {
    pub items: std::vec::IntoIter<char>,
    pub next_idx: usize,
}
thread_local! {
    pub static PULLS: std::cell::RefCell<Vec<usize>> = std::cell::RefCell::new(Vec::new());
}
impl Iterator for CountIter {
    type Item = char;
    fn next(&mut self) -> Option<char> {
        let c = self.items.next()?;
        PULLS.with(|p| p.borrow_mut().push(self.next_idx));
        self.next_idx += 1;
        Some(c)
    }
    // deliberately the default `size_hint` = (0, None): "no lower bound" must not be read as "exhausted"
}
pub type CountStream = chumsky::input::Stream<CountIter>;
pub type BoxedCharStream = chumsky::input::BoxedStream<'static, char>;
/// the reader behind every `IoInput` of the harness: seekable, positioned after a header, hands out at most two bytes per call and answers every third
/// call with `ErrorKind::Interrupted` — a transient condition any `Read` may report and every caller has to retry
pub struct Flaky {
    inner: std::io::Cursor<Vec<u8>>,
    calls: usize,
}
impl Flaky {
    /// the content is preceded by a three-byte header the caller has already read: the reader handed to `IoInput::new` is
    /// NOT at offset 0 (input positions count from where the reader stands, not from the start of the file)
    pub fn new(bytes: Vec<u8>) -> Self {
        let mut all = b"#!\n".to_vec();
        all.extend(bytes);
        let mut inner = std::io::Cursor::new(all);
        inner.set_position(3);
        Flaky { inner, calls: 0 }
    }
}
impl std::io::Read for Flaky {
    fn read(&mut self, buf: &mut [u8]) -> std::io::Result<usize> {
        self.calls += 1;
        if self.calls % 3 == 0 {
            return Err(std::io::ErrorKind::Interrupted.into());
        }
        let n = buf.len().min(2);
        self.inner.read(&mut buf[..n])
    }
}
impl std::io::Seek for Flaky {
    fn seek(&mut self, pos: std::io::SeekFrom) -> std::io::Result<u64> {
        self.inner.seek(pos)
    }
}
pub type IoBytes = chumsky::input::IoInput<Flaky>;
pub type MappedIo = chumsky::input::MappedInput<char, Sp, IoBytes, fn(u8) -> (char, Sp)>;
pub fn io_pair(b: u8) -> (char, Sp) {
    (b as char, Sp::from(b as usize..b as usize + 1))
}
pub type WithCtx<'src> = chumsky::input::WithContext<Sp, &'src [char]>;
pub type MSpanSlice<'src> = chumsky::input::MappedSpan<Sp, &'src [char], fn(Sp) -> Sp>;
pub fn shift_span(s: Sp) -> Sp {
    Sp::from(s.start + 1000..s.end + 1000)
}

macro_rules! no_slice_input {
    ($t:ty) => {
        impl<'src> HInput<'src> for $t {
            fn to_slice<E: HErr<'src, Self>>(_p: BP<'src, Self, E>, _base: usize) -> BP<'src, Self, E> {
                panic!("harness: to_slice unsupported for this input kind")
            }
        }
    };
}
no_slice_input!(CountStream);
no_slice_input!(BoxedCharStream);
no_slice_input!(MappedIo);
impl<'src> HInput<'src> for MSpanSlice<'src> {
    borrow_prims!();
    fn to_slice<E: HErr<'src, Self>>(_p: BP<'src, Self, E>, _base: usize) -> BP<'src, Self, E> {
        panic!("harness: to_slice unsupported for this input kind")
    }
}

impl<'src> HInput<'src> for WithCtx<'src> {
    borrow_prims!();
    fn to_slice<E: HErr<'src, Self>>(p: BP<'src, Self, E>, base: usize) -> BP<'src, Self, E> {
        p.to_slice()
            .map(move |s: &'src [char]| {
                let base = base + crate::run::BASE.with(|b| b.get());
                let off = (s.as_ptr() as usize - base) / core::mem::size_of::<char>();
                Val::Slice(off, off + s.len())
            })
            .boxed()
    }
}

impl<'src, const N: usize> HInput<'src> for &'src [char; N] {
    borrow_prims!();
    fn to_slice<E: HErr<'src, Self>>(p: BP<'src, Self, E>, base: usize) -> BP<'src, Self, E> {
        p.to_slice()
            .map(move |s: &'src [char]| {
                let base = base + crate::run::BASE.with(|b| b.get());
                let off = (s.as_ptr() as usize - base) / core::mem::size_of::<char>();
                Val::Slice(off, off + s.len())
            })
            .boxed()
    }
}

pub struct Cx<'src, I: HInput<'src>, E: HErr<'src, I>> {
    pub defs: Vec<BP<'src, I, E>>,
    pub base: usize,
}

thread_local! {
    /// which `Seq` / `OrderedSeq` implementation carries the tokens of `just` / `one_of` / `none_of` (0 = `Vec<char>`)
    pub static SEQ_FL: std::cell::Cell<u8> = const { std::cell::Cell::new(0) };
}

fn contiguous(cs: &[char]) -> bool {
    !cs.is_empty() && cs.windows(2).all(|w| w[1] as u32 == w[0] as u32 + 1) && (cs[cs.len() - 1] as u32) < 0xD7FF
}

/// run `$body` with `$s` bound to the tokens in the flavour selected by `SEQ_FL` (ordered flavours only: usable for `just`)
macro_rules! seq_ordered {
    ($cs:expr, $s:ident => $body:expr, else $fall:expr) => {{
        let cs: Vec<char> = $cs;
        let fl = SEQ_FL.with(|f| f.get());
        match (fl, cs.len()) {
            (1, _) => { let $s: String = cs.iter().collect(); $body }
            (2, _) => { let $s: &'static str = Box::leak(cs.iter().collect::<String>().into_boxed_str()); $body }
            (3, 1) => { let $s: [char; 1] = [cs[0]]; $body }
            (3, 2) => { let $s: [char; 2] = [cs[0], cs[1]]; $body }
            (3, 3) => { let $s: [char; 3] = [cs[0], cs[1], cs[2]]; $body }
            (4, _) => { let $s: &'static [char] = Box::leak(cs.clone().into_boxed_slice()); $body }
            (5, _) if contiguous(&cs) => { let $s = cs[0]..=cs[cs.len() - 1]; $body }
            (6, _) if contiguous(&cs) => { let $s = cs[0]..char::from_u32(cs[cs.len() - 1] as u32 + 1).unwrap(); $body }
            (7, 1) => { let $s: char = cs[0]; $body }
            (8, 1) => { let $s: &'static char = Box::leak(Box::new(cs[0])); $body }
            (9, 2) => { let $s: &'static [char; 2] = Box::leak(Box::new([cs[0], cs[1]])); $body }
            _ => { let $s = cs; $fall }
        }
    }};
}

/// the same plus the unordered containers (`one_of` / `none_of`)
macro_rules! seq_any {
    ($cs:expr, $s:ident => $body:expr) => {{
        let cs0: Vec<char> = $cs;
        let fl = SEQ_FL.with(|f| f.get());
        match fl {
            10 => { let $s: std::collections::HashSet<char> = cs0.iter().copied().collect(); $body }
            11 => { let $s: std::collections::BTreeSet<char> = cs0.iter().copied().collect(); $body }
            12 => { let $s: std::collections::LinkedList<char> = cs0.iter().copied().collect(); $body }
            _ => seq_ordered!(cs0, $s => $body, else $body),
        }
    }};
}

fn chars(ts: &[u32]) -> Vec<char> {
    ts.iter().map(|&t| char::from_u32(t).unwrap_or('\u{fffd}')).collect()
}

fn eval_pred(p: &Pred, v: &Val) -> bool {
    match p {
        Pred::Always => true,
        Pred::Never => false,
        Pred::TokIs(t) => *v == Val::Tok(*t),
        Pred::TokNot(t) => *v != Val::Tok(*t),
        Pred::IsSome => matches!(v, Val::Some(_)),
        Pred::IsNil => *v == Val::Nil,
    }
}

fn eval_map(f: &MapFn, v: Val) -> Val {
    match f {
        MapFn::Tag(k) => Val::tag(*k, v),
        MapFn::Fst => match v {
            Val::Pair(a, _) => *a,
            v => v,
        },
        MapFn::Snd => match v {
            Val::Pair(_, b) => *b,
            v => v,
        },
        MapFn::Dup => Val::pair(v.clone(), v),
        MapFn::Track => Val::pair(Val::Tr(Tracker::new()), v),
    }
}

fn eval_fold_l(f: &FoldFn, acc: Val, x: Val) -> Val {
    match f {
        FoldFn::Pair => Val::pair(acc, x),
        FoldFn::Count => Val::tag(1, acc),
    }
}

fn eval_fold_r(f: &FoldFn, x: Val, acc: Val) -> Val {
    match f {
        FoldFn::Pair => Val::pair(x, acc),
        FoldFn::Count => Val::tag(1, acc),
    }
}

fn eval_ctxfn(f: &CtxFn, v: &Val) -> Val {
    match f {
        CtxFn::Id => v.clone(),
        CtxFn::Tag(k) => Val::tag(*k, v.clone()),
        CtxFn::LenOf => match v {
            Val::Toks(ts) => Val::Nat(ts.len() as u64),
            v => Val::Nat(v.clone().elems().len() as u64),
        },
    }
}

fn collect_out(k: &Coll, items: Vec<Val>) -> Val {
    match k {
        Coll::Vec => Val::list(items),
        Coll::String => Val::Toks(
            items
                .into_iter()
                .filter_map(|v| match v {
                    Val::Tok(t) => Some(t),
                    _ => None,
                })
                .collect(),
        ),
        Coll::Count => Val::Nat(items.len() as u64),
        Coll::Unit => Val::Unit,
    }
}

thread_local! {
    /// `<id>~c`: every combinator value the interpreter builds is cloned (through its own `Clone` impl) and the clone is
    /// what gets boxed and run — the original is dropped first
    pub static CLONE_FL: std::cell::Cell<bool> = const { std::cell::Cell::new(false) };
    /// `<id>~k<N>`: `collect::<Vec<_>>()` goes through the N-th order-preserving `Container` instead
    /// (1 LinkedList, 2 VecDeque, 3 Box<Vec>, 4 RefCell<Vec>, 5 Cell<Vec>)
    pub static COLL_FL: std::cell::Cell<u8> = const { std::cell::Cell::new(0) };
}

pub trait Bx<'src, I: HInput<'src>, E: HErr<'src, I>>: Parser<'src, I, Val, Ex<E>> + Clone + Sized + 'src {
    fn bx(self) -> BP<'src, I, E> {
        if CLONE_FL.with(|c| c.get()) {
            let c = self.clone();
            drop(self);
            c.boxed()
        } else {
            self.boxed()
        }
    }
}
impl<'src, I: HInput<'src>, E: HErr<'src, I>, P: Parser<'src, I, Val, Ex<E>> + Clone + Sized + 'src> Bx<'src, I, E> for P {}

pub fn build<'src, I: HInput<'src>, E: HErr<'src, I>>(g: &G, cx: &Cx<'src, I, E>) -> BP<'src, I, E> {
    let b = |g: &G| build(g, cx);
    match g {
        G::End => end().to(Val::Unit).bx(),
        G::Empty => empty().to(Val::Unit).bx(),
        G::Any => any().map(|c: char| Val::Tok(c as u32)).bx(),
        G::Just(ts) => {
            let ts2 = ts.clone();
            seq_ordered!(chars(ts), s => just(s).map(move |_| Val::Toks(ts2.clone())).bx(),
                else just(s).map(move |_| Val::Toks(ts2.clone())).bx())
        }
        G::OneOf(ts) => seq_any!(chars(ts), s => one_of(s).map(|c: char| Val::Tok(c as u32)).bx()),
        G::NoneOf(ts) => seq_any!(chars(ts), s => none_of(s).map(|c: char| Val::Tok(c as u32)).bx()),
        G::Select(ts) => {
            let cs = chars(ts);
            select(move |c: char, _| {
                if cs.contains(&c) {
                    Some(Val::tag(7, Val::Tok(c as u32)))
                } else {
                    None
                }
            })
            .bx()
        }
        G::AnyRef => I::any_ref_p::<E>(),
        G::SelectRef(ts) => I::select_ref_p::<E>(chars(ts)),
        G::CNext(msg) => {
            let msg = *msg;
            custom(move |inp| {
                let before = inp.cursor();
                match inp.next() {
                    Some(c) => Ok(Val::Tok(c as u32)),
                    None => Err(E::user(inp.span_since(&before), msg)),
                }
            })
            .bx()
        }
        G::CNextMaybe(msg) => {
            let msg = *msg;
            custom(move |inp| {
                let before = inp.cursor();
                let ahead = inp.peek_maybe().map(|t| *t);
                match inp.next_maybe() {
                    Some(c) => {
                        assert!(ahead == Some(*c), "harness: peek_maybe and next_maybe disagree");
                        Ok(Val::Tok(*c as u32))
                    }
                    None => {
                        assert!(ahead.is_none(), "harness: peek_maybe sees a token where next_maybe sees none");
                        Err(E::user(inp.span_since(&before), msg))
                    }
                }
            })
            .bx()
        }
        G::CParse(a) => {
            let p = b(a);
            custom(move |inp| inp.parse(p.clone())).bx()
        }
        G::UnwrapSome(a) => b(a).map(Some).unwrapped().bx(),
        G::UnwrapOk(a) => b(a).map(Ok::<Val, String>).unwrapped().bx(),
        G::CCheck(a) => {
            let p = b(a);
            custom(move |inp| inp.check(p.clone()).map(|()| Val::Unit)).bx()
        }
        G::CTake2(msg) => {
            let msg = *msg;
            custom(move |inp| {
                let before = inp.cursor();
                let _ = inp.next();
                let _ = inp.next();
                Err(E::user(inp.span_since(&before), msg))
            })
            .bx()
        }
        G::CNothing => custom(|_inp| Ok(Val::Unit)).bx(),
        G::CFail(msg) => {
            let msg = *msg;
            custom(move |inp| {
                let before = inp.cursor();
                Err(E::user(inp.span_since(&before), msg))
            })
            .bx()
        }
        G::Todo => todo().bx(),
        G::Then(a, c) => b(a).then(b(c)).map(|(x, y)| Val::pair(x, y)).bx(),
        G::IgnoreThen(a, c) => b(a).ignore_then(b(c)).bx(),
        G::ThenIgnore(a, c) => b(a).then_ignore(b(c)).bx(),
        G::Delim(a, l, r) => b(a).delimited_by(b(l), b(r)).bx(),
        G::Padded(a, p) => b(a).padded_by(b(p)).bx(),
        G::Group(gs) => {
            let ps: Vec<_> = gs.iter().map(|g| b(g)).collect();
            match ps.len() {
                1 => group((ps[0].clone(),)).map(|(a,)| Val::list([a])).bx(),
                2 => group((ps[0].clone(), ps[1].clone()))
                    .map(|(a, b)| Val::list([a, b]))
                    .bx(),
                3 => group((ps[0].clone(), ps[1].clone(), ps[2].clone()))
                    .map(|(a, b, c)| Val::list([a, b, c]))
                    .bx(),
                4 => group((ps[0].clone(), ps[1].clone(), ps[2].clone(), ps[3].clone()))
                    .map(|(a, b, c, d)| Val::list([a, b, c, d]))
                    .bx(),
                n => panic!("harness: group arity {n} unsupported"),
            }
        }
        G::GroupArr(gs) => {
            let ps: Vec<_> = gs.iter().map(|g| b(g)).collect();
            fn arr<'src, I: HInput<'src>, E: HErr<'src, I>, const N: usize>(
                ps: Vec<BP<'src, I, E>>,
            ) -> BP<'src, I, E> {
                let a: [BP<'src, I, E>; N] = match ps.try_into() {
                    Ok(a) => a,
                    Err(_) => unreachable!(),
                };
                group(a).map(|vs: [Val; N]| Val::list(vs)).bx()
            }
            match ps.len() {
                0 => arr::<I, E, 0>(ps),
                1 => arr::<I, E, 1>(ps),
                2 => arr::<I, E, 2>(ps),
                3 => arr::<I, E, 3>(ps),
                4 => arr::<I, E, 4>(ps),
                n => panic!("harness: group array arity {n} unsupported"),
            }
        }
        G::Or(a, c) => b(a).or(b(c)).bx(),
        G::ChoiceT(gs) => {
            let ps: Vec<_> = gs.iter().map(|g| b(g)).collect();
            match ps.len() {
                1 => choice((ps[0].clone(),)).bx(),
                2 => choice((ps[0].clone(), ps[1].clone())).bx(),
                3 => choice((ps[0].clone(), ps[1].clone(), ps[2].clone())).bx(),
                4 => choice((ps[0].clone(), ps[1].clone(), ps[2].clone(), ps[3].clone())).bx(),
                n => panic!("harness: choice tuple arity {n} unsupported"),
            }
        }
        G::ChoiceS(gs) => {
            let ps: Vec<_> = gs.iter().map(|g| b(g)).collect();
            // `~s3`: the array flavour `Choice<[A; N]>` instead of `Choice<Vec<A>>`
            fn arr<'src, I: HInput<'src>, E: HErr<'src, I>, const N: usize>(ps: Vec<BP<'src, I, E>>) -> BP<'src, I, E> {
                let a: [BP<'src, I, E>; N] = match ps.try_into() {
                    Ok(a) => a,
                    Err(_) => unreachable!(),
                };
                choice(a).bx()
            }
            match (SEQ_FL.with(|f| f.get()), ps.len()) {
                (3, 1) => arr::<I, E, 1>(ps),
                (3, 2) => arr::<I, E, 2>(ps),
                (3, 3) => arr::<I, E, 3>(ps),
                _ => choice(ps).bx(),
            }
        }
        G::OrNot(a) => b(a)
            .or_not()
            .map(|o| match o {
                Some(v) => Val::Some(Box::new(v)),
                None => Val::None,
            })
            .bx(),
        G::Not(a) => b(a).not().to(Val::Unit).bx(),
        G::AndIs(a, c) => b(a).and_is(b(c)).bx(),
        G::Rewind(a) => b(a).rewind().bx(),
        G::Map(f, a) => {
            let f = f.clone();
            b(a).map(move |v| eval_map(&f, v)).bx()
        }
        G::To(v, a) => b(a).to(Val::from_v(v)).bx(),
        G::Ignored(a) => b(a).ignored().to(Val::Unit).bx(),
        G::Filter(p, a) => {
            let p = p.clone();
            b(a).filter(move |v| eval_pred(&p, v)).bx()
        }
        G::TryMap(p, msg, tag, a) => {
            let (p, msg, tag) = (p.clone(), *msg, *tag);
            b(a).try_map(move |v, span| {
                if eval_pred(&p, &v) {
                    Err(E::user(span, msg))
                } else {
                    Ok(Val::tag(tag, v))
                }
            })
            .bx()
        }
        // harness-only: the span handed to a SUCCEEDING `try_map` closure (the model-known equivalent is `mwspan`)
        G::TryMapSpan(a) => b(a).try_map(|v, span| Ok(Val::pair(v, Val::span(span)))).bx(),
        G::TryMapW(p, msg, tag, a) => {
            let (p, msg, tag) = (p.clone(), *msg, *tag);
            b(a).try_map_with(move |v, e| {
                if eval_pred(&p, &v) {
                    Err(E::user(e.span(), msg))
                } else {
                    Ok(Val::tag(tag, v))
                }
            })
            .bx()
        }
        G::ToSpan(a) => b(a).to_span().map(Val::span).bx(),
        G::ToSlice(a) => I::to_slice(b(a), cx.base),
        G::MwSpan(a) => b(a).map_with(|v, e| Val::pair(v, Val::span(e.span()))).bx(),
        G::MwState(a) => b(a).map_with(|v, e| Val::pair(v, e.state().val())).bx(),
        G::MwCtx(a) => b(a).map_with(|v, e| Val::pair(v, e.ctx().clone())).bx(),
        G::Validate(p, msg, count, a) => {
            let (p, msg, count) = (p.clone(), *msg, *count);
            b(a).validate(move |v, e, emitter| {
                if eval_pred(&p, &v) {
                    for _ in 0..count {
                        emitter.emit(E::user(e.span(), msg));
                    }
                }
                v
            })
            .bx()
        }
        G::Collect(k, it) => with_iter(it, cx, false, CollectK { k: k.clone() }),
        G::CollectX(n, it) => with_iter(it, cx, false, CollectXK { n: *n }),
        G::CollectIw(a, it) => with_iter(it, cx, false, CtxIterK { a: b(a), then: false }),
        G::CollectTw(a, it) => with_iter(it, cx, false, CtxIterK { a: b(a), then: true }),
        G::Foldl(f, a, it) => with_iter(it, cx, false, FoldlK { f: f.clone(), a: b(a) }),
        G::Foldr(f, it, c) => with_iter(it, cx, false, FoldrK { f: f.clone(), b: b(c) }),
        G::FoldlW(a, it) => with_iter(it, cx, false, FoldlWK { a: b(a) }),
        G::FoldrW(it, c) => with_iter(it, cx, false, FoldrWK { b: b(c) }),
        G::IterP(it) => build_plain(it, cx),
        G::RecVia(a, r) => b(a).recover_with(via_parser(b(r))).bx(),
        G::RecSkip(a, s, u, fb) => {
            let fb = Val::from_v(fb);
            b(a).recover_with(skip_until(b(s).ignored(), b(u).ignored(), move || fb.clone()))
                .bx()
        }
        G::RecRetry(a, s, u) => b(a)
            .recover_with(skip_then_retry_until(b(s).ignored(), b(u).ignored()))
            .bx(),
        G::RecNd(a, s, e, others) => {
            let ch = |t: u32| char::from_u32(t).unwrap_or('\u{fffd}');
            let fb = |sp: Sp| Val::span(sp);
            let (s, e) = (ch(*s), ch(*e));
            let p = b(a);
            match others.len() / 2 {
                0 => p.recover_with(via_parser(nested_delimiters(s, e, [], fb))).bx(),
                1 => p.recover_with(via_parser(nested_delimiters(s, e, [(ch(others[0]), ch(others[1]))], fb))).bx(),
                _ => p
                    .recover_with(via_parser(nested_delimiters(
                        s,
                        e,
                        [(ch(others[0]), ch(others[1])), (ch(others[2]), ch(others[3]))],
                        fb,
                    )))
                    .bx(),
            }
        }
        G::Label(l, as_ctx, a) => {
            let p = b(a).labelled(format!("L{l}"));
            if *as_ctx {
                p.as_context().bx()
            } else {
                p.bx()
            }
        }
        G::MapErr(k, a) => {
            let k = *k;
            b(a).map_err(move |e: E| e.relabel(k)).bx()
        }
        G::WithCtx(v, a) => b(a).with_ctx(Val::from_v(v)).bx(),
        G::IwCtx(a, c) => b(a).ignore_with_ctx(b(c)).bx(),
        G::TwCtx(a, c) => b(a).then_with_ctx(b(c)).map(|(x, y)| Val::pair(x, y)).bx(),
        G::MapCtx(f, a) => {
            let f = f.clone();
            map_ctx::<_, _, _, Ex<E>, Ex<E>, _>(move |c: &Val| eval_ctxfn(&f, c), b(a)).bx()
        }
        G::CfgJust(c, ts) => {
            let c = c.clone();
            just(chars(ts))
                .configure(move |cfg, ctx: &Val| match (&c, ctx) {
                    (CfgFn::SeqCtx, Val::Toks(ts)) => cfg.seq(chars(ts)),
                    _ => cfg,
                })
                .map(|cs: Vec<char>| Val::Toks(cs.into_iter().map(|c| c as u32).collect()))
                .bx()
        }
        G::WithState(a) => b(a).with_state(Insp::default()).bx(),
        G::Memo(_, a) => b(a).memoized().bx(),
        // a `Memoized` whose first field is a `Memoized`: both have the same address
        G::MemoNest(_, a) => b(a).memoized().memoized().bx(),
        // two distinct zero-sized memoized parsers side by side
        G::MemoZst(_) => any().ignored().memoized().or(end().memoized()).to(Val::Unit).bx(),
        G::Lazy(a) => b(a).lazy().bx(),
        G::Call(k) => cx.defs[*k].clone(),
        G::Boxed(a) => b(a).bx(),
    }
}

/// iterators used as plain parsers (`Repeated::go`, `SeparatedBy::go`, `IterConfigure::go`, `IntoIter::go`)
fn build_plain<'src, I: HInput<'src>, E: HErr<'src, I>>(it: &It, cx: &Cx<'src, I, E>) -> BP<'src, I, E> {
    match it {
        It::Rep(..) | It::Sep(..) | It::CfgRep(..) | It::TryCfgRep(..) => with_iter(it, cx, false, PlainK),
        It::IntoIter(a) => build(a, cx).map(|v| v.elems()).into_iter().to(Val::Unit).bx(),
        other => panic!("harness: ill-typed plain iterator {other:?}"),
    }
}

/// Continuation receiving the concrete iterable parser (they cannot be boxed: `IterState` is a GAT).
/// Items are always `Val`; `enumerate` asks the consumer to apply `.enumerate()` first.
trait IterK<'src, I: HInput<'src>, E: HErr<'src, I>>: Sized {
    fn call<O: 'src, P>(self, p: P, enumerate: bool) -> BP<'src, I, E>
    where
        P: IterParser<'src, I, Val, Ex<E>> + Parser<'src, I, O, Ex<E>> + Clone + 'src;
}

fn rep_cfg<'src>(
    c: &CfgFn,
) -> impl Fn(chumsky::combinator::RepeatedCfg, &Val) -> chumsky::combinator::RepeatedCfg + Clone + 'src {
    let c = c.clone();
    move |cfg, ctx: &Val| match (&c, ctx) {
        (CfgFn::ExactlyCtx, Val::Nat(n)) => cfg.exactly(*n as usize),
        (CfgFn::AtLeastCtx, Val::Nat(n)) => cfg.at_least(*n as usize),
        (CfgFn::AtMostCtx, Val::Nat(n)) => cfg.at_most(*n as usize),
        _ => cfg,
    }
}

fn with_iter<'src, I: HInput<'src>, E: HErr<'src, I>, K: IterK<'src, I, E>>(
    it: &It,
    cx: &Cx<'src, I, E>,
    en: bool,
    k: K,
) -> BP<'src, I, E> {
    match it {
        It::Enum(inner) => {
            assert!(!en, "harness: nested enumerate unsupported");
            with_iter(inner, cx, true, k)
        }
        // the components of `then` are atomic iterators (keeps the continuation types finite)
        It::ThenIt(a, c) => with_atom(a, cx, false, ThenK1 { b: (**c).clone(), cx, k, en }),
        other => with_atom(other, cx, en, k),
    }
}

fn with_atom<'src, I: HInput<'src>, E: HErr<'src, I>, K: IterK<'src, I, E>>(
    it: &It,
    cx: &Cx<'src, I, E>,
    en: bool,
    k: K,
) -> BP<'src, I, E> {
    match it {
        It::Enum(_) | It::ThenIt(..) => panic!("harness: nested then/enumerate iterator unsupported"),
        It::Rep(a, lo, hi) => {
            // `exactly(n)` for odd n, `at_least(n).at_most(n)` for even n: both spellings of equal bounds are exercised
            let p = match hi {
                Some(h) if *h == *lo && *lo % 2 == 1 => build(a, cx).repeated().exactly(*lo),
                Some(h) => build(a, cx).repeated().at_least(*lo).at_most(*h),
                None => build(a, cx).repeated().at_least(*lo),
            };
            k.call(p, en)
        }
        It::Sep(a, s, lo, hi, lead, trail) => {
            let mut p = match hi {
                Some(h) if *h == *lo && *lo % 2 == 1 => build(a, cx).separated_by(build(s, cx)).exactly(*lo),
                Some(h) => build(a, cx).separated_by(build(s, cx)).at_least(*lo).at_most(*h),
                None => build(a, cx).separated_by(build(s, cx)).at_least(*lo),
            };
            if *lead {
                p = p.allow_leading();
            }
            if *trail {
                p = p.allow_trailing();
            }
            k.call(p, en)
        }
        It::OrNotIt(a) => k.call(build(a, cx).or_not(), en),
        It::IntoIter(a) => k.call(build(a, cx).map(|v| v.elems()).into_iter(), en),
        It::CfgRep(c, inner) => match &**inner {
            It::Rep(a, lo, hi) => {
                let p = build(a, cx).repeated().at_least(*lo);
                let p = match hi {
                    Some(h) => p.at_most(*h),
                    None => p,
                };
                let p = p.configure(rep_cfg(c));
                k.call(p, en)
            }
            other => panic!("harness: configure over {other:?} unsupported"),
        },
        It::TryCfgRep(msg, inner) => match &**inner {
            It::Rep(a, lo, hi) => {
                let msg = *msg;
                let p = build(a, cx).repeated().at_least(*lo);
                let p = match hi {
                    Some(h) => p.at_most(*h),
                    None => p,
                };
                let p = p.try_configure(move |cfg, ctx: &Val, span| match ctx {
                    Val::Nat(n) => Ok(cfg.exactly(*n as usize)),
                    _ => Err(E::user(span, msg)),
                });
                k.call(p, en)
            }
            other => panic!("harness: try_configure over {other:?} unsupported"),
        },
    }
}

struct ThenK1<'a, 'src, I: HInput<'src>, E: HErr<'src, I>, K> {
    b: It,
    cx: &'a Cx<'src, I, E>,
    k: K,
    en: bool,
}
impl<'a, 'src, I: HInput<'src>, E: HErr<'src, I>, K: IterK<'src, I, E>> IterK<'src, I, E>
    for ThenK1<'a, 'src, I, E, K>
{
    fn call<O: 'src, P>(self, pa: P, _en: bool) -> BP<'src, I, E>
    where
        P: IterParser<'src, I, Val, Ex<E>> + Parser<'src, I, O, Ex<E>> + Clone + 'src,
    {
        with_atom(&self.b, self.cx, false, ThenK2 { pa, k: self.k, en: self.en, _o: core::marker::PhantomData::<O> })
    }
}
struct ThenK2<PA, K, OA> {
    pa: PA,
    k: K,
    en: bool,
    _o: core::marker::PhantomData<OA>,
}
impl<'src, I: HInput<'src>, E: HErr<'src, I>, K: IterK<'src, I, E>, PA, OA: 'src> IterK<'src, I, E>
    for ThenK2<PA, K, OA>
where
    PA: IterParser<'src, I, Val, Ex<E>> + Parser<'src, I, OA, Ex<E>> + Clone + 'src,
{
    fn call<O: 'src, P>(self, pb: P, _en: bool) -> BP<'src, I, E>
    where
        P: IterParser<'src, I, Val, Ex<E>> + Parser<'src, I, O, Ex<E>> + Clone + 'src,
    {
        self.k.call::<(OA, O), _>(Parser::then(self.pa, pb), self.en)
    }
}

/// the context providers used as iterable parsers: `a.ignore_with_ctx(it)` / `a.then_with_ctx(it)` collected into a Vec
struct CtxIterK<'src, I: HInput<'src>, E: HErr<'src, I>> {
    a: BP<'src, I, E>,
    then: bool,
}
impl<'src, I: HInput<'src>, E: HErr<'src, I>> IterK<'src, I, E> for CtxIterK<'src, I, E> {
    fn call<O: 'src, P>(self, p: P, _en: bool) -> BP<'src, I, E>
    where
        P: IterParser<'src, I, Val, Ex<E>> + Parser<'src, I, O, Ex<E>> + Clone + 'src,
    {
        if self.then {
            self.a.then_with_ctx(p).collect::<Vec<Val>>().map(Val::list).bx()
        } else {
            self.a.ignore_with_ctx(p).collect::<Vec<Val>>().map(Val::list).bx()
        }
    }
}

/// `collect` into the four container kinds
struct CollectK {
    k: Coll,
}
impl CollectK {
    fn go<'src, I, E, T, P>(self, p: P) -> BP<'src, I, E>
    where
        I: HInput<'src>,
        E: HErr<'src, I>,
        T: IntoVal + 'src,
        P: IterParser<'src, I, T, Ex<E>> + Clone + 'src,
    {
        match self.k {
            Coll::Vec | Coll::String => {
                let k = self.k.clone();
                let out = move |vs: Vec<T>| collect_out(&k, vs.into_iter().map(IntoVal::into_val).collect());
                match COLL_FL.with(|f| f.get()) {
                    1 => p.collect::<std::collections::LinkedList<T>>().map(move |l| out(l.into_iter().collect())).bx(),
                    2 => p.collect::<std::collections::VecDeque<T>>().map(move |l| out(l.into_iter().collect())).bx(),
                    3 => p.collect::<Box<Vec<T>>>().map(move |l| out(*l)).bx(),
                    4 => p.collect::<std::cell::RefCell<Vec<T>>>().map(move |l| out(l.into_inner())).bx(),
                    5 => p.collect::<std::cell::Cell<Vec<T>>>().map(move |l| out(l.into_inner())).bx(),
                    _ => p.collect::<Vec<T>>().map(out).bx(),
                }
            }
            Coll::Count => p.count().map(|n| Val::Nat(n as u64)).bx(),
            Coll::Unit => p.collect::<()>().to(Val::Unit).bx(),
        }
    }
}
impl<'src, I: HInput<'src>, E: HErr<'src, I>> IterK<'src, I, E> for CollectK {
    fn call<O: 'src, P>(self, p: P, en: bool) -> BP<'src, I, E>
    where
        P: IterParser<'src, I, Val, Ex<E>> + Parser<'src, I, O, Ex<E>> + Clone + 'src,
    {
        if en {
            self.go(p.enumerate())
        } else {
            self.go(p)
        }
    }
}

struct CollectXK {
    n: usize,
}
impl CollectXK {
    fn go<'src, I, E, T, P>(self, p: P) -> BP<'src, I, E>
    where
        I: HInput<'src>,
        E: HErr<'src, I>,
        T: IntoVal + 'src,
        P: IterParser<'src, I, T, Ex<E>> + Clone + 'src,
    {
        fn arr<'src, I, E, T, P, const N: usize>(p: P) -> BP<'src, I, E>
        where
            I: HInput<'src>,
            E: HErr<'src, I>,
            T: IntoVal + 'src,
            P: IterParser<'src, I, T, Ex<E>> + Clone + 'src,
        {
            p.collect_exactly::<[T; N]>()
                .map(|vs: [T; N]| Val::list(vs.into_iter().map(IntoVal::into_val).collect::<Vec<_>>()))
                .bx()
        }
        match self.n {
            0 => arr::<I, E, T, P, 0>(p),
            1 => arr::<I, E, T, P, 1>(p),
            2 => arr::<I, E, T, P, 2>(p),
            3 => arr::<I, E, T, P, 3>(p),
            4 => arr::<I, E, T, P, 4>(p),
            n => panic!("harness: collect_exactly {n} unsupported"),
        }
    }
}
impl<'src, I: HInput<'src>, E: HErr<'src, I>> IterK<'src, I, E> for CollectXK {
    fn call<O: 'src, P>(self, p: P, en: bool) -> BP<'src, I, E>
    where
        P: IterParser<'src, I, Val, Ex<E>> + Parser<'src, I, O, Ex<E>> + Clone + 'src,
    {
        if en {
            self.go(p.enumerate())
        } else {
            self.go(p)
        }
    }
}

struct FoldlK<'src, I: HInput<'src>, E: HErr<'src, I>> {
    f: FoldFn,
    a: BP<'src, I, E>,
}
impl<'src, I: HInput<'src>, E: HErr<'src, I>> IterK<'src, I, E> for FoldlK<'src, I, E> {
    fn call<O: 'src, P>(self, p: P, en: bool) -> BP<'src, I, E>
    where
        P: IterParser<'src, I, Val, Ex<E>> + Parser<'src, I, O, Ex<E>> + Clone + 'src,
    {
        let f = self.f;
        if en {
            self.a
                .foldl(p.enumerate(), move |acc, x: (usize, Val)| eval_fold_l(&f, acc, x.into_val()))
                .bx()
        } else {
            self.a.foldl(p, move |acc, x: Val| eval_fold_l(&f, acc, x)).bx()
        }
    }
}

struct FoldrK<'src, I: HInput<'src>, E: HErr<'src, I>> {
    f: FoldFn,
    b: BP<'src, I, E>,
}
impl<'src, I: HInput<'src>, E: HErr<'src, I>> IterK<'src, I, E> for FoldrK<'src, I, E> {
    fn call<O: 'src, P>(self, p: P, en: bool) -> BP<'src, I, E>
    where
        P: IterParser<'src, I, Val, Ex<E>> + Parser<'src, I, O, Ex<E>> + Clone + 'src,
    {
        let f = self.f;
        if en {
            p.enumerate()
                .foldr(self.b, move |x: (usize, Val), acc| eval_fold_r(&f, x.into_val(), acc))
                .bx()
        } else {
            p.foldr(self.b, move |x: Val, acc| eval_fold_r(&f, x, acc)).bx()
        }
    }
}

struct FoldlWK<'src, I: HInput<'src>, E: HErr<'src, I>> {
    a: BP<'src, I, E>,
}
impl<'src, I: HInput<'src>, E: HErr<'src, I>> IterK<'src, I, E> for FoldlWK<'src, I, E> {
    fn call<O: 'src, P>(self, p: P, en: bool) -> BP<'src, I, E>
    where
        P: IterParser<'src, I, Val, Ex<E>> + Parser<'src, I, O, Ex<E>> + Clone + 'src,
    {
        if en {
            self.a
                .foldl_with(p.enumerate(), |acc, x: (usize, Val), e| {
                    Val::pair(Val::pair(acc, x.into_val()), Val::span(e.span()))
                })
                .bx()
        } else {
            self.a
                .foldl_with(p, |acc, x: Val, e| Val::pair(Val::pair(acc, x), Val::span(e.span())))
                .bx()
        }
    }
}

struct FoldrWK<'src, I: HInput<'src>, E: HErr<'src, I>> {
    b: BP<'src, I, E>,
}
impl<'src, I: HInput<'src>, E: HErr<'src, I>> IterK<'src, I, E> for FoldrWK<'src, I, E> {
    fn call<O: 'src, P>(self, p: P, en: bool) -> BP<'src, I, E>
    where
        P: IterParser<'src, I, Val, Ex<E>> + Parser<'src, I, O, Ex<E>> + Clone + 'src,
    {
        if en {
            p.enumerate()
                .foldr_with(self.b, |x: (usize, Val), acc, e| {
                    Val::pair(Val::pair(x.into_val(), acc), Val::span(e.span()))
                })
                .bx()
        } else {
            p.foldr_with(self.b, |x: Val, acc, e| Val::pair(Val::pair(x, acc), Val::span(e.span())))
                .bx()
        }
    }
}

struct PlainK;
impl<'src, I: HInput<'src>, E: HErr<'src, I>> IterK<'src, I, E> for PlainK {
    fn call<O: 'src, P>(self, p: P, _en: bool) -> BP<'src, I, E>
    where
        P: IterParser<'src, I, Val, Ex<E>> + Parser<'src, I, O, Ex<E>> + Clone + 'src,
    {
        Parser::map(p, |_: O| Val::Unit).bx()
    }
}
