mod ast;
mod build;
mod val;
mod run;

fn main() {
    run::main();
}
