//! `harness run`: read case lines on stdin, run the real parsers, print one canonical observation per
//! (case, input):   <id>.<k> M <observation>

use std::cell::{Cell, RefCell};
use std::io::{BufRead, Write};
use std::panic::{catch_unwind, AssertUnwindSafe};

use chumsky::error::{Cheap, EmptyErr, Rich, Simple};
use chumsky::recursive::Recursive;
use chumsky::Parser;

use crate::ast::*;
use crate::build::*;
use crate::val::*;

thread_local! {
    pub static LAST_PANIC: RefCell<String> = RefCell::new(String::new());
    pub static BASE: Cell<usize> = Cell::new(0);
}

fn panic_site(msg: &str, file: &str, line: u32) -> String {
    if msg.contains("making no progress") {
        "no-progress".into()
    } else if msg.contains("unimplemented parser") {
        "todo".into()
    } else if file.ends_with("recovery.rs") && msg.contains("unwrap()") {
        "unwrap-recovery".into()
    } else if file.ends_with("combinator.rs") && msg.contains("unwrap()") {
        "unwrap-maperr".into()
    } else if msg.starts_with("harness:") {
        format!("harness-error:{}", msg.replace(' ', "_"))
    } else {
        let f = file.rsplit('/').next().unwrap_or(file);
        format!("other:{f}:{line}:{}", msg.replace(' ', "_").chars().take(60).collect::<String>())
    }
}

pub fn install_panic_hook() {
    std::panic::set_hook(Box::new(|info| {
        let msg = if let Some(s) = info.payload().downcast_ref::<&str>() {
            s.to_string()
        } else if let Some(s) = info.payload().downcast_ref::<String>() {
            s.clone()
        } else {
            "?".to_string()
        };
        let (file, line) = info.location().map(|l| (l.file().to_string(), l.line())).unwrap_or_default();
        LAST_PANIC.with(|p| *p.borrow_mut() = panic_site(&msg, &file, line));
    }));
}

fn render_result<'src, I, E>(o: Option<Val>, errs: Vec<E>, st: &Insp, ir_ok: bool, out: &mut String)
where
    I: HInput<'src>,
    E: HErr<'src, I>,
{
    out.push_str("R ");
    let accepted = o.is_some();
    match o {
        Some(v) => {
            out.push_str("ok ");
            v.render(out);
        }
        None => out.push_str("none"),
    }
    out.push_str(" ; ");
    for (i, e) in errs.iter().enumerate() {
        if i > 0 {
            out.push('|');
        }
        e.render(out);
    }
    use std::fmt::Write;
    if accepted {
        let _ = write!(out, " ; insp={}:{}", st.count, st.hash);
    } else {
        out.push_str(" ; insp=-");
    }
    out.push_str(if ir_ok { " ; ir=ok" } else { " ; ir=err" });
}

pub fn build_case<'src, I: HInput<'src>, E: HErr<'src, I>>(case: &Case) -> BP<'src, I, E> {
    // `<id>~s<N>`: token sequences / sets of `just`, `one_of`, `none_of` are handed over as the N-th `Seq` flavour
    let fl = case.id.rsplit_once("~s").and_then(|(_, n)| n.parse::<u8>().ok()).unwrap_or(0);
    crate::build::SEQ_FL.with(|f| f.set(fl));
    crate::build::CLONE_FL.with(|f| f.set(case.id.contains("~c")));
    let kfl = case.id.rsplit_once("~k").and_then(|(_, n)| n.parse::<u8>().ok()).unwrap_or(0);
    crate::build::COLL_FL.with(|f| f.set(kfl));
    if case.id.starts_with('R') && case.defs.len() == 1 {
        // a single definition built with `recursive(|p| ..)` instead of declare/define
        let def = case.defs[0].clone();
        let rec = chumsky::recursive::recursive(move |p| {
            let cx = Cx { defs: vec![p.boxed()], base: 0 };
            build(&def, &cx)
        });
        let cx = Cx { defs: vec![rec.boxed()], base: 0 };
        return build(&case.main, &cx);
    }
    let mut defs: Vec<Rec<'src, I, E>> = case.defs.iter().map(|_| Recursive::declare()).collect();
    let cx = Cx { defs: defs.iter().map(|d| d.clone().boxed()).collect(), base: 0 };
    let bodies: Vec<_> = case.defs.iter().map(|d| build(d, &cx)).collect();
    for (d, b) in defs.iter_mut().zip(bodies) {
        d.define(b);
    }
    build(&case.main, &cx)
}

pub fn run_one<'src, I: HInput<'src>, E: HErr<'src, I>>(
    p: &BP<'src, I, E>,
    mode: ModeK,
    input: I,
) -> String {
    run_one_p::<I, E, _>(p, mode, input)
}

/// the same through any parser value (used by the wrapper histories of C13)
pub fn run_one_p<'src, I: HInput<'src>, E: HErr<'src, I>, P: Parser<'src, I, Val, Ex<E>>>(
    p: &P,
    mode: ModeK,
    input: I,
) -> String {
    let mut out = String::new();
    let tracking = TRK.with(|t| t.borrow().enabled);
    if tracking {
        trk_reset();
    }
    let r = catch_unwind(AssertUnwindSafe(|| {
        let mut st = Insp::default();
        let mut s = String::new();
        match mode {
            ModeK::Parse => {
                let res = p.parse_with_state(input, &mut st);
                let ir_ok = res.clone().into_result().is_ok();
                let (ho, he) = (res.has_output(), res.has_errors());
                let (bo, bn) = (res.output().is_some(), res.errors().len());
                let (co, cn) = (res.clone().into_output().is_some(), res.clone().into_errors().len());
                let (o, errs) = res.into_output_errors();
                assert!(ho == o.is_some() && he == !errs.is_empty(), "harness: ParseResult accessors inconsistent");
                assert!(bo == ho && co == ho && bn == errs.len() && cn == errs.len(), "harness: ParseResult accessors inconsistent (borrowing / consuming forms)");
                render_result::<I, E>(o, errs, &st, ir_ok, &mut s);
            }
            ModeK::Check => {
                let res = p.check_with_state(input, &mut st);
                let ir_ok = res.clone().into_result().is_ok();
                let (ho, he) = (res.has_output(), res.has_errors());
                let (bo, bn) = (res.output().is_some(), res.errors().len());
                let (co, cn) = (res.clone().into_output().is_some(), res.clone().into_errors().len());
                let (o, errs) = res.into_output_errors();
                assert!(ho == o.is_some() && he == !errs.is_empty(), "harness: ParseResult accessors inconsistent");
                assert!(bo == ho && co == ho && bn == errs.len() && cn == errs.len(), "harness: ParseResult accessors inconsistent (borrowing / consuming forms)");
                render_result::<I, E>(o.map(|_| Val::Unit), errs, &st, ir_ok, &mut s);
            }
        }
        s
    }));
    match r {
        Ok(s) => out.push_str(&s),
        Err(_) => {
            out.push_str("P ");
            LAST_PANIC.with(|p| out.push_str(&p.borrow()));
        }
    }
    if tracking {
        // everything the parse produced (output, errors) has been dropped by now
        use std::fmt::Write;
        TRK.with(|t| {
            let t = t.borrow();
            let _ = write!(out, " ; D created={} cloned={} dropped={} live={} dd={}", t.created, t.cloned, t.dropped,
                           t.live.len(), if t.double { 1 } else { 0 });
        });
    }
    out
}

pub fn run_case_str<'src, E: HErr<'src, &'src str>>(case: &Case, inputs: &'src [String], w: &mut dyn Write) {
    let built = catch_unwind(AssertUnwindSafe(|| build_case::<&'src str, E>(case)));
    for (k, inp) in inputs.iter().enumerate() {
        let obs = match &built {
            Ok(p) => {
                BASE.with(|b| b.set(inp.as_ptr() as usize));
                run_one::<&'src str, E>(p, case.mode, inp.as_str())
            }
            Err(_) => format!("P {}", LAST_PANIC.with(|p| p.borrow().clone())),
        };
        let _ = writeln!(w, "{}.{} M {}", case.id, k, obs);
    }
}

pub fn run_case_slice<'src, E: HErr<'src, &'src [char]>>(case: &Case, inputs: &'src [Vec<char>], w: &mut dyn Write) {
    let built = catch_unwind(AssertUnwindSafe(|| build_case::<&'src [char], E>(case)));
    for (k, inp) in inputs.iter().enumerate() {
        let obs = match &built {
            Ok(p) => {
                BASE.with(|b| b.set(inp.as_ptr() as usize));
                run_one::<&'src [char], E>(p, case.mode, &inp[..])
            }
            Err(_) => format!("P {}", LAST_PANIC.with(|p| p.borrow().clone())),
        };
        let _ = writeln!(w, "{}.{} M {}", case.id, k, obs);
    }
}

pub fn to_char(t: u32) -> char {
    char::from_u32(t).unwrap_or('\u{fffd}')
}

/// error-kind selector (the bins instantiate exactly one kind each, which keeps compile times flat)
pub trait EKind {
    type Err<'src>: HErr<'src, &'src str>
        + HErr<'src, &'src [char]>
        + HErr<'src, MappedSlice<'src>>
        + HErr<'src, CountStream>
        + HErr<'src, MappedStream>;
}
pub struct RichK;
pub struct SimpleK;
pub struct CheapK;
pub struct EmptyK;
impl EKind for RichK {
    type Err<'src> = Rich<'src, char, Sp>;
}
impl EKind for SimpleK {
    type Err<'src> = Simple<'src, char, Sp>;
}
impl EKind for CheapK {
    type Err<'src> = Cheap<Sp>;
}
impl EKind for EmptyK {
    type Err<'src> = EmptyErr;
}

pub fn case_str<K: EKind>(case: &Case, w: &mut dyn Write) {
    let inputs: Vec<String> = case.inputs.iter().map(|ts| ts.iter().map(|&t| to_char(t)).collect()).collect();
    run_case_str::<K::Err<'_>>(case, &inputs, w)
}

pub fn case_slice<K: EKind>(case: &Case, w: &mut dyn Write) {
    let inputs: Vec<Vec<char>> = case.inputs.iter().map(|ts| ts.iter().map(|&t| to_char(t)).collect()).collect();
    run_case_slice::<K::Err<'_>>(case, &inputs, w)
}

/// token spans of a mapped input with gap `g`: token i covers [i*(g+2)+g, i*(g+2)+g+2); eoi = empty span after the last gap
pub fn mapped_tokens(ts: &[u32], gap: usize) -> (Vec<(char, Sp)>, Sp) {
    let v = ts
        .iter()
        .enumerate()
        .map(|(i, &t)| (to_char(t), Sp::from(i * (gap + 2) + gap..i * (gap + 2) + gap + 2)))
        .collect::<Vec<_>>();
    let e = ts.len() * (gap + 2) + gap;
    (v, Sp::from(e..e))
}

pub fn emit_all<'src, I: HInput<'src>, E: HErr<'src, I>>(
    case: &Case,
    w: &mut dyn Write,
    mut mk: impl FnMut(usize) -> I,
) {
    let built = catch_unwind(AssertUnwindSafe(|| build_case::<I, E>(case)));
    for k in 0..case.inputs.len() {
        let obs = match &built {
            Ok(p) => run_one::<I, E>(p, case.mode, mk(k)),
            Err(_) => format!("P {}", LAST_PANIC.with(|p| p.borrow().clone())),
        };
        let _ = writeln!(w, "{}.{} M {}", case.id, k, obs);
    }
}

pub fn case_mapped<K: EKind>(case: &Case, w: &mut dyn Write) {
    let gap = match case.kind {
        Kind::Mapped(g) => g,
        _ => 0,
    };
    let data: Vec<(Vec<(char, Sp)>, Sp)> = case.inputs.iter().map(|ts| mapped_tokens(ts, gap)).collect();
    fn go<'src, E: HErr<'src, MappedSlice<'src>>>(case: &Case, data: &'src [(Vec<(char, Sp)>, Sp)], w: &mut dyn Write) {
        emit_all::<MappedSlice<'src>, E>(case, w, |k| {
            let f: fn(&'src (char, Sp)) -> (&'src char, &'src Sp) = proj_pair;
            chumsky::input::Input::map(&data[k].0[..], data[k].1, f)
        })
    }
    go::<K::Err<'_>>(case, &data, w)
}

/// after a parse over a counting stream: every item was pulled from the iterator at most once and in order
fn pulls_verdict() -> &'static str {
    PULLS.with(|p| {
        let mut p = p.borrow_mut();
        let ok = p.iter().enumerate().all(|(i, &x)| i == x);
        p.clear();
        if ok {
            ""
        } else {
            " ; PULLS-OUT-OF-ORDER-OR-REPEATED"
        }
    })
}

pub fn count_stream(data: &[char]) -> CountStream {
    PULLS.with(|p| p.borrow_mut().clear());
    chumsky::input::Stream::from_iter(CountIter { items: data.to_vec().into_iter(), next_idx: 0 })
}

pub fn case_stream<K: EKind>(case: &Case, w: &mut dyn Write) {
    let data: Vec<Vec<char>> = case.inputs.iter().map(|ts| ts.iter().map(|&t| to_char(t)).collect()).collect();
    let built = catch_unwind(AssertUnwindSafe(|| build_case::<CountStream, K::Err<'static>>(case)));
    for k in 0..case.inputs.len() {
        let obs = match &built {
            Ok(p) => {
                let o = run_one::<CountStream, K::Err<'static>>(p, case.mode, count_stream(&data[k]));
                format!("{o}{}", pulls_verdict())
            }
            Err(_) => format!("P {}", LAST_PANIC.with(|p| p.borrow().clone())),
        };
        let _ = writeln!(w, "{}.{} M {}", case.id, k, obs);
    }
}

pub fn case_mstream<K: EKind>(case: &Case, w: &mut dyn Write) {
    let gap = match case.kind {
        Kind::MStream(g) => g,
        _ => 0,
    };
    let data: Vec<(Vec<(char, Sp)>, Sp)> = case.inputs.iter().map(|ts| mapped_tokens(ts, gap)).collect();
    emit_all::<MappedStream, K::Err<'static>>(case, w, |k| {
        let f: fn((char, Sp)) -> (char, Sp) = id_pair;
        chumsky::input::Input::map(chumsky::input::Stream::from_iter(data[k].0.clone()), data[k].1, f)
    })
}

/// read case lines on stdin; lines whose (kind, error kind) is not `want` are answered with a marker
pub fn main_loop(want: (Kind, EK), f: fn(&Case, &mut dyn Write)) {
    install_panic_hook();
    let stdin = std::io::stdin();
    let stdout = std::io::stdout();
    let mut w = std::io::BufWriter::new(stdout.lock());
    for line in stdin.lock().lines() {
        let line = match line {
            Ok(l) => l,
            Err(_) => break,
        };
        if line.trim().is_empty() {
            continue;
        }
        let mut rd = Rd::new(&line);
        match rd.case() {
            Ok(case) => {
                let same_kind = match (case.kind, want.0) {
                    (Kind::Mapped(_), Kind::Mapped(_)) | (Kind::MStream(_), Kind::MStream(_)) => true,
                    (a, b) => a == b,
                };
                if same_kind && case.ek == want.1 {
                    f(&case, &mut w)
                } else {
                    let _ = writeln!(w, "ERR wrong binary for this case :: {}", case.id);
                }
            }
            Err(e) => {
                let _ = writeln!(w, "ERR {} :: {}", e, line.trim());
            }
        }
    }
    let _ = w.flush();
}
