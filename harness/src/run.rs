//! `harness run`: read case lines on stdin, run the real parsers, print one canonical observation per
//! (case, input):   <id>.<k> M <observation>

use std::cell::{Cell, RefCell};
use std::io::{BufRead, Write};
use std::panic::{catch_unwind, AssertUnwindSafe};

use chumsky::error::{Cheap, EmptyErr, Rich, Simple};
use chumsky::recursive::Recursive;
use chumsky::Parser;

use crate::ast::*;
use crate::build::*;
use crate::val::*;

thread_local! {
    static LAST_PANIC: RefCell<String> = RefCell::new(String::new());
    pub static BASE: Cell<usize> = Cell::new(0);
}

fn panic_site(msg: &str, file: &str, line: u32) -> String {
    if msg.contains("making no progress") {
        "no-progress".into()
    } else if msg.contains("unimplemented parser") {
        "todo".into()
    } else if file.ends_with("recovery.rs") && msg.contains("unwrap()") {
        "unwrap-recovery".into()
    } else if file.ends_with("combinator.rs") && msg.contains("unwrap()") {
        "unwrap-maperr".into()
    } else if msg.starts_with("harness:") {
        format!("harness-error:{}", msg.replace(' ', "_"))
    } else {
        let f = file.rsplit('/').next().unwrap_or(file);
        format!("other:{f}:{line}:{}", msg.replace(' ', "_").chars().take(60).collect::<String>())
    }
}

pub fn install_panic_hook() {
    std::panic::set_hook(Box::new(|info| {
        let msg = if let Some(s) = info.payload().downcast_ref::<&str>() {
            s.to_string()
        } else if let Some(s) = info.payload().downcast_ref::<String>() {
            s.clone()
        } else {
            "?".to_string()
        };
        let (file, line) = info.location().map(|l| (l.file().to_string(), l.line())).unwrap_or_default();
        LAST_PANIC.with(|p| *p.borrow_mut() = panic_site(&msg, &file, line));
    }));
}

fn render_result<'src, I, E>(o: Option<Val>, errs: Vec<E>, st: &Insp, out: &mut String)
where
    I: HInput<'src>,
    E: HErr<'src, I>,
{
    out.push_str("R ");
    let accepted = o.is_some();
    match o {
        Some(v) => {
            out.push_str("ok ");
            v.render(out);
        }
        None => out.push_str("none"),
    }
    out.push_str(" ; ");
    for (i, e) in errs.iter().enumerate() {
        if i > 0 {
            out.push('|');
        }
        e.render(out);
    }
    use std::fmt::Write;
    if accepted {
        let _ = write!(out, " ; insp={}:{}", st.count, st.hash);
    } else {
        out.push_str(" ; insp=-");
    }
}

fn build_case<'src, I: HInput<'src>, E: HErr<'src, I>>(case: &Case) -> BP<'src, I, E> {
    let mut defs: Vec<Rec<'src, I, E>> = case.defs.iter().map(|_| Recursive::declare()).collect();
    let cx = Cx { defs: defs.clone(), base: 0 };
    let bodies: Vec<_> = case.defs.iter().map(|d| build(d, &cx)).collect();
    for (d, b) in defs.iter_mut().zip(bodies) {
        d.define(b);
    }
    build(&case.main, &cx)
}

fn run_one<'src, I: HInput<'src>, E: HErr<'src, I>>(
    p: &BP<'src, I, E>,
    mode: ModeK,
    input: I,
) -> String {
    let mut out = String::new();
    let r = catch_unwind(AssertUnwindSafe(|| {
        let mut st = Insp::default();
        let mut s = String::new();
        match mode {
            ModeK::Parse => {
                let (o, errs) = p.parse_with_state(input, &mut st).into_output_errors();
                render_result::<I, E>(o, errs, &st, &mut s);
            }
            ModeK::Check => {
                let (o, errs) = p.check_with_state(input, &mut st).into_output_errors();
                render_result::<I, E>(o.map(|_| Val::Unit), errs, &st, &mut s);
            }
        }
        s
    }));
    match r {
        Ok(s) => out.push_str(&s),
        Err(_) => {
            out.push_str("P ");
            LAST_PANIC.with(|p| out.push_str(&p.borrow()));
        }
    }
    out
}

fn run_case_str<'src, E: HErr<'src, &'src str>>(case: &Case, inputs: &'src [String], w: &mut impl Write) {
    let built = catch_unwind(AssertUnwindSafe(|| build_case::<&'src str, E>(case)));
    for (k, inp) in inputs.iter().enumerate() {
        let obs = match &built {
            Ok(p) => {
                BASE.with(|b| b.set(inp.as_ptr() as usize));
                run_one::<&'src str, E>(p, case.mode, inp.as_str())
            }
            Err(_) => format!("P {}", LAST_PANIC.with(|p| p.borrow().clone())),
        };
        let _ = writeln!(w, "{}.{} M {}", case.id, k, obs);
    }
}

fn run_case_slice<'src, E: HErr<'src, &'src [char]>>(case: &Case, inputs: &'src [Vec<char>], w: &mut impl Write) {
    let built = catch_unwind(AssertUnwindSafe(|| build_case::<&'src [char], E>(case)));
    for (k, inp) in inputs.iter().enumerate() {
        let obs = match &built {
            Ok(p) => {
                BASE.with(|b| b.set(inp.as_ptr() as usize));
                run_one::<&'src [char], E>(p, case.mode, &inp[..])
            }
            Err(_) => format!("P {}", LAST_PANIC.with(|p| p.borrow().clone())),
        };
        let _ = writeln!(w, "{}.{} M {}", case.id, k, obs);
    }
}

fn to_char(t: u32) -> char {
    char::from_u32(t).unwrap_or('\u{fffd}')
}

pub fn run_case(case: &Case, w: &mut impl Write) {
    match case.kind {
        Kind::Str => {
            let inputs: Vec<String> = case.inputs.iter().map(|ts| ts.iter().map(|&t| to_char(t)).collect()).collect();
            match case.ek {
                EK::Rich => run_case_str::<Rich<char, Sp>>(case, &inputs, w),
                EK::Simple => run_case_str::<Simple<char, Sp>>(case, &inputs, w),
                EK::Cheap => run_case_str::<Cheap<Sp>>(case, &inputs, w),
                EK::Empty => run_case_str::<EmptyErr>(case, &inputs, w),
            }
        }
        Kind::Slice => {
            let inputs: Vec<Vec<char>> =
                case.inputs.iter().map(|ts| ts.iter().map(|&t| to_char(t)).collect()).collect();
            match case.ek {
                EK::Rich => run_case_slice::<Rich<char, Sp>>(case, &inputs, w),
                EK::Simple => run_case_slice::<Simple<char, Sp>>(case, &inputs, w),
                EK::Cheap => run_case_slice::<Cheap<Sp>>(case, &inputs, w),
                EK::Empty => run_case_slice::<EmptyErr>(case, &inputs, w),
            }
        }
        Kind::Mapped(_) => {
            for k in 0..case.inputs.len() {
                let _ = writeln!(w, "{}.{} M P harness-error:mapped-unsupported", case.id, k);
            }
        }
    }
}

pub fn main() {
    install_panic_hook();
    let stdin = std::io::stdin();
    let stdout = std::io::stdout();
    let mut w = std::io::BufWriter::new(stdout.lock());
    for line in stdin.lock().lines() {
        let line = match line {
            Ok(l) => l,
            Err(_) => break,
        };
        if line.trim().is_empty() {
            continue;
        }
        let mut rd = Rd::new(&line);
        match rd.case() {
            Ok(case) => run_case(&case, &mut w),
            Err(e) => {
                let _ = writeln!(w, "ERR {} :: {}", e, line.trim());
            }
        }
    }
    let _ = w.flush();
}
