//! Universal output value, inspector state and error rendering (canonical observation strings —
//! must agree character for character with lean/Main.lean).

use chumsky::error::{Cheap, EmptyErr, Rich, RichPattern, RichReason, Simple};
use chumsky::input::{Checkpoint, Cursor, Input};
use chumsky::inspector::Inspector;
use chumsky::label::LabelError;
use chumsky::span::SimpleSpan;
use chumsky::util::MaybeRef;

use crate::ast::V;

pub type Sp = SimpleSpan<usize>;

#[derive(Clone, Debug, PartialEq)]
pub enum Val {
    Unit,
    Tok(u32),
    Toks(Vec<u32>),
    Pair(Box<Val>, Box<Val>),
    Nil,
    Cons(Box<Val>, Box<Val>),
    None,
    Some(Box<Val>),
    Tag(u64, Box<Val>),
    Span(usize, usize),
    Slice(usize, usize),
    Nat(u64),
    Insp(u32, u64),
    /// drop-tracked marker (C19); rendered without its identity
    Tr(Tracker),
}

/// A value with an identity whose creation, cloning and destruction are recorded in a thread-local registry.
#[derive(Debug)]
pub struct Tracker(pub u64);

#[derive(Default)]
pub struct TrkState {
    pub enabled: bool,
    pub next_id: u64,
    pub live: std::collections::HashSet<u64>,
    pub created: u64,
    pub cloned: u64,
    pub dropped: u64,
    pub double: bool,
    /// zero-sized tracked values alive (they carry no identity: only the count can be kept)
    pub zlive: i64,
}

thread_local! {
    pub static TRK: std::cell::RefCell<TrkState> = std::cell::RefCell::new(TrkState::default());
}

pub fn trk_reset() {
    TRK.with(|t| {
        let mut t = t.borrow_mut();
        let en = t.enabled;
        *t = TrkState::default();
        t.enabled = en;
    })
}

fn trk_new(clone: bool) -> u64 {
    TRK.with(|t| {
        let mut t = t.borrow_mut();
        t.next_id += 1;
        let id = t.next_id;
        t.live.insert(id);
        if clone {
            t.cloned += 1
        } else {
            t.created += 1
        }
        id
    })
}

impl Tracker {
    pub fn new() -> Self {
        Tracker(trk_new(false))
    }
}
impl Clone for Tracker {
    fn clone(&self) -> Self {
        Tracker(trk_new(true))
    }
}
impl PartialEq for Tracker {
    fn eq(&self, _: &Self) -> bool {
        true
    }
}
impl Drop for Tracker {
    fn drop(&mut self) {
        let _ = TRK.try_with(|t| {
            if let Ok(mut t) = t.try_borrow_mut() {
                t.dropped += 1;
                if !t.live.remove(&self.0) {
                    t.double = true;
                }
            }
        });
    }
}

/// A ZERO-SIZED value with a destructor: pointer-range loops and `size_of`-based fast paths treat such types specially.
#[derive(Debug)]
pub struct ZTr;
const _: () = assert!(core::mem::size_of::<ZTr>() == 0);
impl ZTr {
    pub fn new() -> Self {
        TRK.with(|t| {
            let mut t = t.borrow_mut();
            t.created += 1;
            t.zlive += 1;
        });
        ZTr
    }
}
impl Drop for ZTr {
    fn drop(&mut self) {
        let _ = TRK.try_with(|t| {
            if let Ok(mut t) = t.try_borrow_mut() {
                t.dropped += 1;
                t.zlive -= 1;
                if t.zlive < 0 {
                    t.double = true;
                }
            }
        });
    }
}

/// what the static drop families are generic over
pub trait Tracked: Sized {
    fn make() -> Self;
}
impl Tracked for Tracker {
    fn make() -> Self {
        Tracker::new()
    }
}
impl Tracked for ZTr {
    fn make() -> Self {
        ZTr::new()
    }
}
/// a FAT tracked item (328 bytes): `[FatTr; 3]` is below 1 KiB, `[FatTr; 4]` above — array code that treats large arrays
/// differently (heap scratch space, chunked initialisation) is exercised on both sides of such a threshold
pub struct FatTr(pub Tracker, pub [u64; 40]);
impl Tracked for FatTr {
    fn make() -> Self {
        FatTr(Tracker::new(), [0x5a5a_5a5a_5a5a_5a5a; 40])
    }
}

impl Default for Val {
    fn default() -> Self {
        Val::Unit
    }
}

impl Val {
    pub fn pair(a: Val, b: Val) -> Val {
        Val::Pair(Box::new(a), Box::new(b))
    }
    pub fn tag(k: u64, v: Val) -> Val {
        Val::Tag(k, Box::new(v))
    }
    pub fn list<I: IntoIterator<Item = Val>>(it: I) -> Val
    where
        I::IntoIter: DoubleEndedIterator,
    {
        let mut acc = Val::Nil;
        for v in it.into_iter().rev() {
            acc = Val::Cons(Box::new(v), Box::new(acc));
        }
        acc
    }
    pub fn span(s: Sp) -> Val {
        Val::Span(s.start, s.end)
    }
    /// `IntoIterator` on values (lean: `Val.elems`)
    pub fn elems(self) -> Vec<Val> {
        match self {
            Val::Cons(h, t) => {
                let mut out = vec![*h];
                let mut cur = *t;
                loop {
                    match cur {
                        Val::Cons(h, t) => {
                            out.push(*h);
                            cur = *t;
                        }
                        Val::Toks(ts) => {
                            out.extend(ts.into_iter().map(Val::Tok));
                            break;
                        }
                        Val::Some(v) => {
                            out.push(*v);
                            break;
                        }
                        _ => break,
                    }
                }
                out
            }
            Val::Toks(ts) => ts.into_iter().map(Val::Tok).collect(),
            Val::Some(v) => vec![*v],
            _ => vec![],
        }
    }
    pub fn from_v(v: &V) -> Val {
        match v {
            V::Unit => Val::Unit,
            V::Tok(t) => Val::Tok(*t),
            V::Toks(ts) => Val::Toks(ts.clone()),
            V::Nat(n) => Val::Nat(*n),
            V::Tag(k, v) => Val::tag(*k, Val::from_v(v)),
            V::None => Val::None,
            V::Nil => Val::Nil,
        }
    }
    pub fn render(&self, out: &mut String) {
        use std::fmt::Write;
        match self {
            Val::Unit => out.push('u'),
            Val::Tr(_) => out.push('T'),
            Val::Tok(t) => {
                let _ = write!(out, "t{t}");
            }
            Val::Toks(ts) => {
                out.push('s');
                render_toks(ts, out);
            }
            Val::Pair(a, b) => {
                out.push_str("(p ");
                a.render(out);
                out.push(' ');
                b.render(out);
                out.push(')');
            }
            Val::Nil => out.push('n'),
            Val::Cons(h, t) => {
                out.push_str("(c ");
                h.render(out);
                out.push(' ');
                t.render(out);
                out.push(')');
            }
            Val::None => out.push('o'),
            Val::Some(v) => {
                out.push_str("(j ");
                v.render(out);
                out.push(')');
            }
            Val::Tag(k, v) => {
                let _ = write!(out, "(g {k} ");
                v.render(out);
                out.push(')');
            }
            Val::Span(s, e) => {
                let _ = write!(out, "(sp {s} {e})");
            }
            Val::Slice(s, e) => {
                let _ = write!(out, "(sl {s} {e})");
            }
            Val::Nat(n) => {
                let _ = write!(out, "#{n}");
            }
            Val::Insp(c, h) => {
                let _ = write!(out, "i{c}:{h}");
            }
        }
    }
}

pub fn render_toks(ts: &[u32], out: &mut String) {
    use std::fmt::Write;
    for (i, t) in ts.iter().enumerate() {
        if i > 0 {
            out.push('.');
        }
        let _ = write!(out, "{t}");
    }
}

/// values that can be turned into the universal value (items of `enumerate()` are pairs)
pub trait IntoVal {
    fn into_val(self) -> Val;
}
impl IntoVal for Val {
    fn into_val(self) -> Val {
        self
    }
}
impl IntoVal for (usize, Val) {
    fn into_val(self) -> Val {
        Val::pair(Val::Nat(self.0 as u64), self.1)
    }
}

/// Inspector whose checkpoint is a snapshot of its state: `(count, hash)` of the tokens fed so far.
#[derive(Clone, Copy, Debug, Default, PartialEq)]
pub struct Insp {
    pub count: u32,
    pub hash: u64,
}

impl Insp {
    pub fn feed(&mut self, t: u32) {
        self.count += 1;
        self.hash = self.hash.wrapping_mul(31).wrapping_add(t as u64 + 1);
    }
    pub fn val(&self) -> Val {
        Val::Insp(self.count, self.hash)
    }
}

impl<'src, I: Input<'src, Token = char>> Inspector<'src, I> for Insp {
    type Checkpoint = Insp;
    fn on_token(&mut self, token: &char) {
        self.feed(*token as u32);
    }
    fn on_save<'parse>(&self, _: &Cursor<'src, 'parse, I>) -> Insp {
        *self
    }
    fn on_rewind<'parse>(&mut self, marker: &Checkpoint<'src, 'parse, I, Insp>) {
        *self = *marker.inspector();
    }
}

/// The error types the harness instantiates parsers with.
pub trait HErr<'src, I: Input<'src, Token = char, Span = Sp>>:
    chumsky::error::Error<'src, I> + LabelError<'src, I, String> + Clone + 'src
{
    fn user(span: Sp, msg: u64) -> Self;
    fn render(&self, out: &mut String);
    fn relabel(self, k: u64) -> Self;
}

fn render_pat(p: &RichPattern<'_, char>) -> String {
    match p {
        RichPattern::Token(t) => format!("t{}", **t as u32),
        RichPattern::Label(l) => {
            let l: &str = l;
            match l.strip_prefix('L') {
                Some(n) => format!("l{n}"),
                None => format!("label:{l}"),
            }
        }
        RichPattern::Identifier(s) => format!("id:{s}"),
        RichPattern::Any => "any".to_string(),
        RichPattern::SomethingElse => "else".to_string(),
        RichPattern::EndOfInput => "eoi".to_string(),
        #[allow(unreachable_patterns)]
        _ => "other".to_string(),
    }
}

impl<'src, I: Input<'src, Token = char, Span = Sp>> HErr<'src, I> for Rich<'src, char, Sp> {
    fn user(span: Sp, msg: u64) -> Self {
        Rich::custom(span, format!("m{msg}"))
    }
    fn render(&self, out: &mut String) {
        use std::fmt::Write;
        let sp = self.span();
        let _ = write!(out, "{{{}-{};", sp.start, sp.end);
        match self.reason() {
            RichReason::ExpectedFound { expected, found } => {
                let mut pats: Vec<String> = expected.iter().map(render_pat).collect();
                pats.sort();
                let _ = write!(out, "E[{}]F", pats.join(","));
                match found {
                    Some(t) => {
                        let _ = write!(out, "{}", **t as u32);
                    }
                    None => out.push('-'),
                }
            }
            RichReason::Custom(msg) => match msg.strip_prefix('m') {
                Some(n) => {
                    let _ = write!(out, "C{n}");
                }
                None => {
                    let _ = write!(out, "C?{msg}");
                }
            },
        }
        out.push(';');
        let ctx: Vec<String> = self
            .contexts()
            .map(|(p, s)| format!("{}@{}-{}", render_pat(p), s.start, s.end))
            .collect();
        out.push_str(&ctx.join(","));
        out.push('}');
    }
    fn relabel(mut self, k: u64) -> Self {
        <Self as LabelError<'src, I, String>>::label_with(&mut self, format!("L{k}"));
        self
    }
}

impl<'src, I: Input<'src, Token = char, Span = Sp>> HErr<'src, I> for Simple<'src, char, Sp> {
    fn user(span: Sp, _msg: u64) -> Self {
        Simple::new(None, span)
    }
    fn render(&self, out: &mut String) {
        use std::fmt::Write;
        let sp = self.span();
        let _ = write!(out, "{{{}-{};E[]F", sp.start, sp.end);
        match self.found() {
            Some(t) => {
                let _ = write!(out, "{}", *t as u32);
            }
            None => out.push('-'),
        }
        out.push_str(";}");
    }
    fn relabel(self, _k: u64) -> Self {
        self
    }
}

impl<'src, I: Input<'src, Token = char, Span = Sp>> HErr<'src, I> for Cheap<Sp> {
    fn user(span: Sp, _msg: u64) -> Self {
        Cheap::new(span)
    }
    fn render(&self, out: &mut String) {
        use std::fmt::Write;
        let sp = self.span();
        let _ = write!(out, "{{{}-{};E[]F-;}}", sp.start, sp.end);
    }
    fn relabel(self, _k: u64) -> Self {
        self
    }
}

impl<'src, I: Input<'src, Token = char, Span = Sp>> HErr<'src, I> for EmptyErr {
    fn user(_span: Sp, _msg: u64) -> Self {
        EmptyErr::default()
    }
    fn render(&self, out: &mut String) {
        out.push_str("{0-0;E[]F-;}");
    }
    fn relabel(self, _k: u64) -> Self {
        self
    }
}

#[allow(dead_code)]
pub fn found_of<'a>(t: Option<MaybeRef<'a, char>>) -> Option<u32> {
    t.map(|t| *t as u32)
}
