//! Generic parts only (reader, interpreter, values, generic runners). Everything that instantiates the interpreter for a concrete
//! (input kind, error type) lives in the binaries (`src/bin/*.rs` include the per-property modules by path), so that a change in
//! /repo recompiles only the binaries a check needs, in parallel.
pub mod ast;
pub mod build;
pub mod run;
pub mod val;
