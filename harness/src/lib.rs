pub mod ast;
pub mod build;
pub mod run;
pub mod val;
pub mod hist;
pub mod text;
pub mod pratt;
pub mod drops;
