//! C19: drop accounting.
//!   * ordinary case lines (kind str | slice, error kind rich): the interpreter-built grammar is run with tracking on;
//!     `map track` closures create tracked values; the observation gets ` ; D created=.. cloned=.. dropped=.. live=.. dd=..`
//!     measured after the parse result has been dropped.
//!   * `DR <id> ce <N> <boxed 0|1> <parse|check> <lo> <hi|-> I <inputs>`: statically typed
//!     `just('a').map(track).repeated().at_least(lo).at_most(hi).collect_exactly::<[T; N]>()` (or `Box<[_; N]>`)
//!   * `DR <id> ga <N> 0 <parse|check> 0 - I <inputs>`: `group([just('a').map(track); N])`
//!   * families `cz` / `gz`: the same two with a ZERO-SIZED tracked item type (`ZTr`); `cf` / `gf`: with a 328-byte one (`FatTr`)
//!   * `DR <id> tk <slice|stream> 0 <parse|check> 0 - I <inputs>`: tracked *tokens* supplied by the caller
//!     output: `<id>.<k> M created=<c> dropped=<d> returned=<r> ok=<0|1> live=<l> dd=<0|1>` where created/dropped are counted
//!     when `parse` returns, returned = tracked values inside the output, live/dd after the output has been dropped.

use std::io::{BufRead, Write};
use std::panic::{catch_unwind, AssertUnwindSafe};

use chumsky::error::Cheap;
use chumsky::extra;
use chumsky::prelude::*;

use chumsky_verif_harness::ast::*;
use chumsky_verif_harness::run;
use chumsky_verif_harness::val::*;

type ExT<'a> = extra::Err<chumsky::error::Simple<'a, Tok>>;

type Ex = extra::Err<Cheap>;

fn stats() -> (u64, u64, usize, bool) {
    TRK.with(|t| {
        let t = t.borrow();
        (t.created + t.cloned, t.dropped, (t.live.len() as i64 + t.zlive).max(0) as usize, t.double)
    })
}

fn observe<T>(res: Option<T>, count: impl Fn(&T) -> usize) -> String {
    let (created, dropped, _, _) = stats();
    let (ok, returned) = match &res {
        Some(v) => (1, count(v)),
        None => (0, 0),
    };
    drop(res);
    let (_, _, live, dd) = stats();
    format!("created={created} dropped={dropped} returned={returned} ok={ok} live={live} dd={}", if dd { 1 } else { 0 })
}

fn track_item<'a, T: Tracked + 'a>() -> impl Parser<'a, &'a str, T, Ex> + Clone {
    just('a').map(|_| T::make())
}

fn ce<T: Tracked, const N: usize>(boxed: bool, check: bool, lo: usize, hi: Option<usize>, input: &str) -> String {
    let it = track_item::<T>().repeated().at_least(lo);
    let it = match hi {
        Some(h) => it.at_most(h),
        None => it,
    };
    let rest = any::<&str, Ex>().repeated();
    if boxed {
        let p = it.collect_exactly::<Box<[T; N]>>().then_ignore(rest);
        if check {
            observe(p.check(input).into_output(), |_| 0)
        } else {
            observe(p.parse(input).into_output(), |b| b.len())
        }
    } else {
        let p = it.collect_exactly::<[T; N]>().then_ignore(rest);
        if check {
            observe(p.check(input).into_output(), |_| 0)
        } else {
            observe(p.parse(input).into_output(), |b| b.len())
        }
    }
}

fn ga<T: Tracked, const N: usize>(check: bool, input: &str) -> String {
    let ps: [_; N] = core::array::from_fn(|_| track_item::<T>());
    let p = group(ps).then_ignore(any::<&str, Ex>().repeated());
    if check {
        observe(p.check(input).into_output(), |_| 0)
    } else {
        observe(p.parse(input).into_output(), |b: &[T; N]| b.len())
    }
}

/// caller-supplied tracked tokens
#[derive(Debug)]
pub struct Tok(pub char, pub Tracker);
impl Clone for Tok {
    fn clone(&self) -> Self {
        Tok(self.0, self.1.clone())
    }
}
impl PartialEq for Tok {
    fn eq(&self, o: &Self) -> bool {
        self.0 == o.0
    }
}

fn tk(stream: bool, check: bool, chars: &[char]) -> String {
    let toks: Vec<Tok> = chars.iter().map(|&c| Tok(c, Tracker::new())).collect();
    let n0 = toks.len();
    // a grammar that backtracks over consumed tokens and keeps some of them in its output
    fn grammar<'a, I>() -> impl Parser<'a, I, (Vec<Tok>, Option<Tok>), ExT<'a>>
    where
        I: chumsky::input::ValueInput<'a, Token = Tok, Span = SimpleSpan>,
    {
        let a = any::<I, ExT<'a>>().filter(|t: &Tok| t.0 == 'a');
        let b = any::<I, ExT<'a>>().filter(|t: &Tok| t.0 == 'b');
        let ab = a.clone().then(b.clone()).map(|(x, _)| x);
        ab.or(a.clone().then_ignore(a.clone().rewind()))
            .repeated()
            .collect::<Vec<_>>()
            .then(b.or_not())
            .then_ignore(any().repeated())
    }
    let s;
    if stream {
        let inp = chumsky::input::Stream::from_iter(toks.into_iter());
        s = if check {
            observe(grammar().check(inp).into_output(), |_| 0)
        } else {
            observe(grammar().parse(inp).into_output(), |o: &(Vec<Tok>, Option<Tok>)| o.0.len() + o.1.iter().count())
        };
    } else {
        let r = if check {
            observe(grammar().check(&toks[..]).into_output(), |_| 0)
        } else {
            observe(grammar().parse(&toks[..]).into_output(), |o: &(Vec<Tok>, Option<Tok>)| o.0.len() + o.1.iter().count())
        };
        // the caller still owns its tokens: they must all be alive and distinct from anything the parser dropped
        let (_, _, live, dd) = stats();
        drop(toks);
        s = format!("{r} caller_live={live} caller_dd={}", if dd { 1 } else { 0 });
    }
    let (_, _, live, dd) = stats();
    format!("{s} n0={n0} final_live={live} final_dd={}", if dd { 1 } else { 0 })
}

fn dr_line(toks: &[&str], w: &mut dyn Write) {
    let id = toks[1];
    let fam = toks[2];
    let n: usize = toks[3].parse().unwrap_or(0);
    let boxed = toks[4] == "1";
    let check = toks[5] == "check";
    let lo: usize = toks[6].parse().unwrap_or(0);
    let hi: Option<usize> = toks[7].parse().ok();
    assert_eq!(toks[8], "I");
    let mut rd = Rd::new_tokens(&toks[9..]);
    let inputs = rd.inputs().unwrap_or_default();
    for (k, ts) in inputs.iter().enumerate() {
        let chars: Vec<char> = ts.iter().map(|&t| char::from_u32(t).unwrap_or('\u{fffd}')).collect();
        let s: String = chars.iter().collect();
        trk_reset();
        let r = catch_unwind(AssertUnwindSafe(|| match (fam, n) {
            ("ce", 0) => ce::<Tracker, 0>(boxed, check, lo, hi, &s),
            ("ce", 1) => ce::<Tracker, 1>(boxed, check, lo, hi, &s),
            ("ce", 2) => ce::<Tracker, 2>(boxed, check, lo, hi, &s),
            ("ce", 3) => ce::<Tracker, 3>(boxed, check, lo, hi, &s),
            ("ce", 4) => ce::<Tracker, 4>(boxed, check, lo, hi, &s),
            ("ce", 7) => ce::<Tracker, 7>(boxed, check, lo, hi, &s),
            ("cz", 0) => ce::<ZTr, 0>(boxed, check, lo, hi, &s),
            ("cz", 1) => ce::<ZTr, 1>(boxed, check, lo, hi, &s),
            ("cz", 2) => ce::<ZTr, 2>(boxed, check, lo, hi, &s),
            ("cz", 3) => ce::<ZTr, 3>(boxed, check, lo, hi, &s),
            ("cz", 4) => ce::<ZTr, 4>(boxed, check, lo, hi, &s),
            ("cz", 7) => ce::<ZTr, 7>(boxed, check, lo, hi, &s),
            ("cf", 0) => ce::<FatTr, 0>(boxed, check, lo, hi, &s),
            ("cf", 1) => ce::<FatTr, 1>(boxed, check, lo, hi, &s),
            ("cf", 2) => ce::<FatTr, 2>(boxed, check, lo, hi, &s),
            ("cf", 3) => ce::<FatTr, 3>(boxed, check, lo, hi, &s),
            ("cf", 4) => ce::<FatTr, 4>(boxed, check, lo, hi, &s),
            ("cf", 7) => ce::<FatTr, 7>(boxed, check, lo, hi, &s),
            ("gf", 0) => ga::<FatTr, 0>(check, &s),
            ("gf", 1) => ga::<FatTr, 1>(check, &s),
            ("gf", 2) => ga::<FatTr, 2>(check, &s),
            ("gf", 3) => ga::<FatTr, 3>(check, &s),
            ("gf", 4) => ga::<FatTr, 4>(check, &s),
            ("gf", 7) => ga::<FatTr, 7>(check, &s),
            ("ga", 0) => ga::<Tracker, 0>(check, &s),
            ("ga", 1) => ga::<Tracker, 1>(check, &s),
            ("ga", 2) => ga::<Tracker, 2>(check, &s),
            ("ga", 3) => ga::<Tracker, 3>(check, &s),
            ("ga", 4) => ga::<Tracker, 4>(check, &s),
            ("ga", 7) => ga::<Tracker, 7>(check, &s),
            ("gz", 0) => ga::<ZTr, 0>(check, &s),
            ("gz", 1) => ga::<ZTr, 1>(check, &s),
            ("gz", 2) => ga::<ZTr, 2>(check, &s),
            ("gz", 3) => ga::<ZTr, 3>(check, &s),
            ("gz", 4) => ga::<ZTr, 4>(check, &s),
            ("gz", 7) => ga::<ZTr, 7>(check, &s),
            ("tk", _) => tk(boxed, check, &chars),
            _ => "ERR unknown-family".to_string(),
        }))
        .unwrap_or_else(|_| "P panic".to_string());
        let _ = writeln!(w, "{id}.{k} M {r}");
    }
}

pub fn main() {
    run::install_panic_hook();
    TRK.with(|t| t.borrow_mut().enabled = true);
    let stdin = std::io::stdin();
    let stdout = std::io::stdout();
    // every observation leaves the process at once: a later abort (double free) must not take it along
    let mut w = std::io::LineWriter::new(stdout.lock());
    for line in stdin.lock().lines() {
        let line = match line {
            Ok(l) => l,
            Err(_) => break,
        };
        if line.trim().is_empty() {
            continue;
        }
        let toks: Vec<&str> = line.split_ascii_whitespace().collect();
        if toks[0] == "DR" {
            dr_line(&toks, &mut w);
            continue;
        }
        let mut rd = Rd::new(&line);
        match rd.case() {
            Ok(case) => match (case.kind, case.ek) {
                (Kind::Str, EK::Rich) => run::case_str::<run::RichK>(&case, &mut w),
                (Kind::Slice, EK::Rich) => run::case_slice::<run::RichK>(&case, &mut w),
                _ => {
                    let _ = writeln!(w, "ERR wrong binary for this case :: {}", case.id);
                }
            },
            Err(e) => {
                let _ = writeln!(w, "ERR {} :: {}", e, line.trim());
            }
        }
    }
    let _ = w.flush();
}
