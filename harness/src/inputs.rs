//! C10: the `Input` implementations driven directly through the trait (the same calls `InputRef` makes), on arbitrary
//! schedules of `next` calls on previously obtained cursors.
//!   IN <id> <kind> S <n> k1..kn I <inputspec>      kind: slice | str | stream | bstream | io | iomap | mapped | iter
//!     -> <id>.<k> M <loc>:<tok|-> ...      (one entry per call: the location asked and the token returned)
//!        for `stream`: `; pulls=<n> inorder=<0|1>` — what the underlying iterator was asked for
//!   GR <id> I <inputspec>                           Graphemes: clusters the input yields vs unicode-segmentation directly
//!     -> <id>.<k> M <len,len,..> ; ref <len,len,..>

use std::io::{BufRead, Write};

use chumsky::input::{Input, IoInput, IterInput, Stream, ValueInput};
use chumsky::span::SimpleSpan;
use unicode_segmentation::UnicodeSegmentation;

use chumsky_verif_harness::ast::*;
use chumsky_verif_harness::build::{CountIter, PULLS};

fn replay<'src, I>(input: I, sched: &[usize], tok: impl Fn(I::Token) -> u32) -> String
where
    I: ValueInput<'src>,
{
    let (c0, mut cache) = input.begin();
    let mut cursors: Vec<I::Cursor> = vec![c0];
    let mut out = String::new();
    for &k in sched {
        let mut cu = cursors[k % cursors.len()].clone();
        let loc = I::cursor_location(&cu);
        // SAFETY: the cursor was produced by this cache
        let t = unsafe { I::next(&mut cache, &mut cu) };
        use std::fmt::Write as _;
        match t {
            Some(t) => {
                let _ = write!(out, " {}:{}", loc, tok(t));
            }
            None => {
                let _ = write!(out, " {}:-", loc);
            }
        }
        cursors.push(cu);
    }
    out
}

fn replay_maybe<'src, I>(input: I, sched: &[usize], tok: impl Fn(I::MaybeToken) -> u32) -> String
where
    I: Input<'src>,
{
    let (c0, mut cache) = input.begin();
    let mut cursors: Vec<I::Cursor> = vec![c0];
    let mut out = String::new();
    for &k in sched {
        let mut cu = cursors[k % cursors.len()].clone();
        let loc = I::cursor_location(&cu);
        let t = unsafe { I::next_maybe(&mut cache, &mut cu) };
        use std::fmt::Write as _;
        match t {
            Some(t) => {
                let _ = write!(out, " {}:{}", loc, tok(t));
            }
            None => {
                let _ = write!(out, " {}:-", loc);
            }
        }
        cursors.push(cu);
    }
    out
}

/// `IterInput` with spans: after every `next_maybe` also ask for the span from the cursor the call started at, and from
/// the very first cursor, to the cursor it produced (what `span_since` does after a match / at a failure), and for the empty match at that cursor
fn replay_iter_spans(v: Vec<(char, SimpleSpan)>, eoi: SimpleSpan, sched: &[usize]) -> String {
    type I = IterInput<std::vec::IntoIter<(char, SimpleSpan)>, SimpleSpan>;
    let input: I = IterInput::new(v.into_iter(), eoi);
    let (c0, mut cache) = input.begin();
    let mut cursors: Vec<<I as Input>::Cursor> = vec![c0.clone()];
    // every (start, end) pair a call produced: a later call asks again for the span of an OLDER pair (a capture that is
    // computed after the parser has looked further ahead and come back)
    let mut pairs: Vec<(<I as Input>::Cursor, <I as Input>::Cursor)> = Vec::new();
    let mut out = String::new();
    for &k in sched {
        let from = cursors[k % cursors.len()].clone();
        let mut cu = from.clone();
        let loc = <I as Input>::cursor_location(&cu);
        let t = unsafe { <I as Input>::next_maybe(&mut cache, &mut cu) };
        let s1 = unsafe { <I as Input>::span(&mut cache, &from..&cu) };
        let s0 = unsafe { <I as Input>::span(&mut cache, &c0..&cu) };
        let s2 = unsafe { <I as Input>::span(&mut cache, &cu..&cu) };
        pairs.push((from.clone(), cu.clone()));
        let old = &pairs[(k * 7 + 3) % pairs.len()];
        let s3 = unsafe { <I as Input>::span(&mut cache, &old.0..&old.1) };
        use std::fmt::Write as _;
        let tk = match t {
            Some(t) => (t as u32).to_string(),
            None => "-".to_string(),
        };
        let _ = write!(out, " {}:{}@{}-{}@{}-{}@{}-{}@{}-{}", loc, tk, s1.start, s1.end, s0.start, s0.end, s2.start, s2.end, s3.start, s3.end);
        cursors.push(cu);
    }
    out
}

fn in_line(toks: &[&str], w: &mut dyn Write) {
    let id = toks[1];
    let kind = toks[2];
    assert_eq!(toks[3], "S");
    let n: usize = toks[4].parse().unwrap();
    let sched: Vec<usize> = toks[5..5 + n].iter().map(|t| t.parse().unwrap()).collect();
    assert_eq!(toks[5 + n], "I");
    let mut rd = Rd::new_tokens(&toks[6 + n..]);
    let inputs = rd.inputs().unwrap_or_default();
    for (k, ts) in inputs.iter().enumerate() {
        let chars: Vec<char> = ts.iter().map(|&t| char::from_u32(t).unwrap_or('\u{fffd}')).collect();
        let r = std::panic::catch_unwind(std::panic::AssertUnwindSafe(|| match kind {
            "slice" => replay::<&[char]>(&chars[..], &sched, |c| c as u32),
            "str" => {
                let s: String = chars.iter().collect();
                // locations of `&str` are byte offsets: report the character index instead (the model's reference is index-based)
                let st: &str = &s;
                let (c0, mut cache) = st.begin();
                let mut cursors = vec![c0];
                let mut out = String::new();
                for &k in &sched {
                    let mut cu = cursors[k % cursors.len()].clone();
                    let loc = <&str as Input>::cursor_location(&cu);
                    let idx = s[..loc].chars().count();
                    let t = unsafe { <&str as ValueInput>::next(&mut cache, &mut cu) };
                    use std::fmt::Write as _;
                    match t {
                        Some(t) => {
                            let _ = write!(out, " {}:{}", idx, t as u32);
                        }
                        None => {
                            let _ = write!(out, " {}:-", idx);
                        }
                    }
                    cursors.push(cu);
                }
                out
            }
            "stream" => {
                PULLS.with(|p| p.borrow_mut().clear());
                let st = Stream::from_iter(CountIter { items: chars.clone().into_iter(), next_idx: 0 });
                let o = replay(st, &sched, |c| c as u32);
                let (np, ok) = PULLS.with(|p| {
                    let p = p.borrow();
                    (p.len(), p.iter().enumerate().all(|(i, &x)| i == x))
                });
                format!("{o} ; pulls={np} inorder={}", if ok { 1 } else { 0 })
            }
            "bstream" => replay(Stream::from_iter(chars.clone()).boxed(), &sched, |c| c as u32),
            "io" => {
                let bytes: Vec<u8> = chars.iter().map(|&c| c as u32 as u8).collect();
                replay(IoInput::new(chumsky_verif_harness::build::Flaky::new(bytes)), &sched, |b| b as u32)
            }
            "iomap" => {
                let bytes: Vec<u8> = chars.iter().map(|&c| c as u32 as u8).collect();
                let f: fn(u8) -> (char, SimpleSpan) = chumsky_verif_harness::build::io_pair;
                replay(IoInput::new(chumsky_verif_harness::build::Flaky::new(bytes)).map(SimpleSpan::from(200..200), f), &sched, |c| c as u32)
            }
            "mapped" => {
                let (v, eoi) = chumsky_verif_harness::run::mapped_tokens(ts, 1);
                let f: fn(&(char, SimpleSpan)) -> (&char, &SimpleSpan) = chumsky_verif_harness::build::proj_pair;
                replay(Input::map(&v[..], eoi, f), &sched, |c| c as u32)
            }
            "iter" => {
                let (v, eoi) = chumsky_verif_harness::run::mapped_tokens(ts, 1);
                replay_maybe(IterInput::new(v.into_iter(), eoi), &sched, |c: char| c as u32)
            }
            "iterspan" => {
                let (v, eoi) = chumsky_verif_harness::run::mapped_tokens(ts, 1);
                replay_iter_spans(v, eoi, &sched)
            }
            other => format!("ERR unknown-kind-{other}"),
        }))
        .unwrap_or_else(|_| " P panic".to_string());
        let _ = writeln!(w, "{id}.{k} M{r}");
    }
}

fn gr_line(toks: &[&str], w: &mut dyn Write) {
    let id = toks[1];
    assert_eq!(toks[2], "I");
    let mut rd = Rd::new_tokens(&toks[3..]);
    let inputs = rd.inputs().unwrap_or_default();
    for (k, ts) in inputs.iter().enumerate() {
        let s: String = ts.iter().map(|&t| char::from_u32(t).unwrap_or('\u{fffd}')).collect();
        let g = chumsky::text::Graphemes::new(&s);
        // the clusters the *input* yields, token by token
        let (c0, mut cache) = g.begin();
        let mut cu = c0;
        let mut got: Vec<String> = Vec::new();
        loop {
            let t = unsafe { <&chumsky::text::Graphemes as ValueInput>::next(&mut cache, &mut cu) };
            match t {
                Some(gr) => got.push(gr.as_str().to_string()),
                None => break,
            }
            if got.len() > s.len() + 2 {
                break;
            }
        }
        let want: Vec<&str> = s.graphemes(true).collect();
        let iter: Vec<String> = g.iter().map(|gr| gr.as_str().to_string()).collect();
        let fmt = |v: &[String]| v.iter().map(|x| x.chars().count().to_string()).collect::<Vec<_>>().join(",");
        let want_s: Vec<String> = want.iter().map(|x| x.to_string()).collect();
        let _ = writeln!(
            w,
            "{id}.{k} M {} ; ref {} ; iter {} ; same={}",
            fmt(&got),
            fmt(&want_s),
            fmt(&iter),
            if got == want_s && iter == want_s { 1 } else { 0 }
        );
    }
}

pub fn main() {
    chumsky_verif_harness::run::install_panic_hook();
    let stdin = std::io::stdin();
    let stdout = std::io::stdout();
    let mut w = std::io::BufWriter::new(stdout.lock());
    for line in stdin.lock().lines() {
        let Ok(line) = line else { break };
        let toks: Vec<&str> = line.split_ascii_whitespace().collect();
        if toks.is_empty() {
            continue;
        }
        match toks[0] {
            "IN" => in_line(&toks, &mut w),
            "GR" => gr_line(&toks, &mut w),
            _ => {
                let _ = writeln!(w, "ERR unknown line :: {}", line.trim());
            }
        }
    }
    let _ = w.flush();
}
