//! C14: the text parsers on `&str` and `&[u8]`.
//!   input : T <id> <char|u8> <parser> <nparams> <params..> I <inputspec>
//!   output: <id>.<k> M ok <s> <e> <end> | none     (token indices of the returned slice and of the end position)

use std::io::{BufRead, Write};

use chumsky::error::Cheap;
use chumsky::extra;
use chumsky::input::{Checkpoint, Cursor, Input};
use chumsky::inspector::Inspector;
use chumsky::prelude::*;
use chumsky::text;

use chumsky_verif_harness::ast::all_strings;

/// counts the tokens it is fed (C18: every consumed token must pass through `on_token`, also inside the text parsers)
#[derive(Clone, Copy, Default)]
pub struct CountInsp(pub usize);
impl<'src, I: Input<'src>> Inspector<'src, I> for CountInsp {
    type Checkpoint = usize;
    fn on_token(&mut self, _: &I::Token) {
        self.0 += 1;
    }
    fn on_save<'parse>(&self, _: &Cursor<'src, 'parse, I>) -> usize {
        self.0
    }
    fn on_rewind<'parse>(&mut self, marker: &Checkpoint<'src, 'parse, I, usize>) {
        self.0 = *marker.inspector();
    }
}

type Ex = extra::Full<Cheap, CountInsp, ()>;

fn nat_list(toks: &[&str], i: &mut usize) -> Vec<u32> {
    let n: usize = toks[*i].parse().unwrap();
    *i += 1;
    let v = toks[*i..*i + n].iter().map(|t| t.parse().unwrap()).collect();
    *i += n;
    v
}

fn inputs(toks: &[&str], mut i: usize) -> Vec<Vec<u32>> {
    let mut out = Vec::new();
    while i < toks.len() {
        match toks[i] {
            "all" => {
                let max_len: usize = toks[i + 1].parse().unwrap();
                i += 2;
                let alpha = nat_list(toks, &mut i);
                all_strings(&alpha, max_len, &mut out);
            }
            "lit" => {
                i += 1;
                out.push(nat_list(toks, &mut i));
            }
            t => panic!("bad input spec {t}"),
        }
    }
    out
}

/// run `p` (returning a slice) followed by "the rest"; report token indices
fn observe_str<'a>(
    p: impl Parser<'a, &'a str, &'a str, Ex>,
    input: &'a str,
) -> String {
    let full = p.then(any().repeated().to_slice());
    let mut insp = CountInsp::default();
    match full.parse_with_state(input, &mut insp).into_result() {
        Ok((s, rest)) => {
            let idx = |ptr: *const u8| input[..(ptr as usize - input.as_ptr() as usize)].chars().count();
            let st = idx(s.as_ptr());
            let en = st + s.chars().count();
            let r = idx(rest.as_ptr());
            format!("ok {st} {en} {r} i{}", insp.0)
        }
        Err(_) => "none".to_string(),
    }
}

fn observe_u8<'a>(p: impl Parser<'a, &'a [u8], &'a [u8], Ex>, input: &'a [u8]) -> String {
    let full = p.then(any().repeated().to_slice());
    let mut insp = CountInsp::default();
    match full.parse_with_state(input, &mut insp).into_result() {
        Ok((s, rest)) => {
            let st = s.as_ptr() as usize - input.as_ptr() as usize;
            let en = st + s.len();
            let r = rest.as_ptr() as usize - input.as_ptr() as usize;
            format!("ok {st} {en} {r} i{}", insp.0)
        }
        Err(_) => "none".to_string(),
    }
}

/// the same over a `&Graphemes` input: tokens are extended grapheme clusters; indices are reported in clusters, followed by
/// `g<n>` = the number of clusters of the whole input (the check knows what to expect only for inputs it can segment itself)
fn observe_gr<'a>(
    p: impl Parser<'a, &'a text::Graphemes, &'a text::Graphemes, Ex>,
    input: &'a text::Graphemes,
) -> String {
    let full = p.then(any().repeated().to_slice());
    let mut insp = CountInsp::default();
    let whole = input.as_str();
    let n = input.iter().count();
    match full.parse_with_state(input, &mut insp).into_result() {
        Ok((s, rest)) => {
            let idx = |ptr: *const u8| text::Graphemes::new(&whole[..(ptr as usize - whole.as_ptr() as usize)]).iter().count();
            let st = idx(s.as_str().as_ptr());
            let en = st + s.iter().count();
            let r = idx(rest.as_str().as_ptr());
            format!("ok {st} {en} {r} i{} g{n}", insp.0)
        }
        Err(_) => format!("none g{n}"),
    }
}

/// patterns of the `regex` family (index = first parameter); the check holds the same table
const PATTERNS: [&str; 16] = ["[0-9]+", "[a-zA-Z_][a-zA-Z0-9_]*", "a|ab", "(ab)*", "a*", "ab|a", "[^ ]+", ".", "é+", "a?b",
    r"\bb", "^a", r"\Bb", r"\ba\b", "(?m)^a", r"a\b"];

macro_rules! dispatch {
    ($pname:expr, $params:expr, $obs:ident, $inp:expr, $kw:expr, $newline:expr) => {{
        let r = $params.get(0).copied().unwrap_or(10);
        match $pname {
            "ws" => $obs(text::whitespace().to_slice(), $inp),
            "iws" => $obs(text::inline_whitespace().to_slice(), $inp),
            // the returned `Repeated` counts CHARACTERS: bounds and `count()` on (inline) whitespace
            "ws_b" => $obs(
                text::whitespace().at_least(r as usize).at_most($params.get(1).copied().unwrap_or(9) as usize).to_slice(),
                $inp
            ),
            "iws_b" => $obs(
                text::inline_whitespace().at_least(r as usize).at_most($params.get(1).copied().unwrap_or(9) as usize).to_slice(),
                $inp
            ),
            "ws_x" => $obs(text::whitespace().exactly(r as usize).to_slice(), $inp),
            "digits" => $obs(text::digits(r).to_slice(), $inp),
            "int" => $obs(text::int(r), $inp),
            "aident" => $obs(text::ascii::ident(), $inp),
            "uident" => $obs(text::unicode::ident(), $inp),
            "akw" => $obs(text::ascii::keyword($kw), $inp),
            "ukw" => $obs(text::unicode::keyword($kw), $inp),
            "pad_int" => $obs(text::int(r).padded(), $inp),
            "pad_aident" => $obs(text::ascii::ident().padded(), $inp),
            "newline" => $newline,
            "regex" => $obs(chumsky::regex::regex(PATTERNS[r as usize % PATTERNS.len()]), $inp),
            // the same parser where no output is required of it (`to_slice` / `ignored` run their parser in check mode): what it
            // consumes must be what the emitting run consumes
            "regex_c" => $obs(chumsky::regex::regex(PATTERNS[r as usize % PATTERNS.len()]).to_slice(), $inp),
            "regex_i" => $obs(chumsky::regex::regex(PATTERNS[r as usize % PATTERNS.len()]).ignored().to_slice(), $inp),
            // the same pattern after `k` arbitrary tokens: look-behind assertions (`^`, `\b`, `\B`) must see what precedes the cursor
            "regex_at" => $obs(
                any()
                    .repeated()
                    .exactly($params.get(1).copied().unwrap_or(1) as usize)
                    .ignore_then(chumsky::regex::regex(PATTERNS[r as usize % PATTERNS.len()])),
                $inp
            ),
            other => format!("ERR unknown-parser-{other}"),
        }
    }};
}

/// C13 for `regex`: ONE parser value over a history of inputs that are windows of one buffer (every prefix of the text, growing
/// and then shrinking again, so that a search that fails at an address is followed by one that succeeds at the same address and
/// vice versa); every step must give what a fresh parser gives (the check compares with the oracle of the prefix)
fn regex_hist<W: Write>(w: &mut W, id: &str, inst: &str, params: &[u32], ins: &[Vec<u32>]) {
    let pat = PATTERNS[params.first().copied().unwrap_or(0) as usize % PATTERNS.len()];
    let run = |f: &dyn Fn() -> String| std::panic::catch_unwind(std::panic::AssertUnwindSafe(f)).unwrap_or_else(|_| "P panic".to_string());
    if inst == "char" {
        let strs: Vec<String> = ins.iter().map(|ts| ts.iter().map(|&t| char::from_u32(t).unwrap_or('\u{fffd}')).collect()).collect();
        let p = chumsky::regex::regex::<&str, Ex>(pat);
        for (k, s) in strs.iter().enumerate() {
            let ends: Vec<usize> = s.char_indices().map(|(i, _)| i).chain([s.len()]).collect();
            let obs: Vec<String> = ends.iter().chain(ends.iter().rev()).map(|&e| run(&|| observe_str(&p, &s[..e]))).collect();
            let _ = writeln!(w, "{id}.{k} M {}", obs.join(" | "));
        }
    } else {
        let strs: Vec<Vec<u8>> = ins.iter().map(|ts| ts.iter().map(|&t| t as u8).collect()).collect();
        let p = chumsky::regex::regex::<&[u8], Ex>(pat);
        for (k, s) in strs.iter().enumerate() {
            let ends: Vec<usize> = (0..=s.len()).collect();
            let obs: Vec<String> = ends.iter().chain(ends.iter().rev()).map(|&e| run(&|| observe_u8(&p, &s[..e]))).collect();
            let _ = writeln!(w, "{id}.{k} M {}", obs.join(" | "));
        }
    }
}

pub fn main() {
    chumsky_verif_harness::run::install_panic_hook();
    let stdin = std::io::stdin();
    let stdout = std::io::stdout();
    let mut w = std::io::BufWriter::new(stdout.lock());
    for line in stdin.lock().lines() {
        let line = match line {
            Ok(l) => l,
            Err(_) => break,
        };
        let toks: Vec<&str> = line.split_ascii_whitespace().collect();
        if toks.len() < 5 || toks[0] != "T" {
            continue;
        }
        let id = toks[1];
        let inst = toks[2];
        let pname = toks[3];
        let mut i = 4;
        let params = nat_list(&toks, &mut i);
        assert_eq!(toks[i], "I");
        let ins = inputs(&toks, i + 1);
        if pname == "regex_hist" {
            regex_hist(&mut w, id, inst, &params, &ins);
            continue;
        }
        for (k, ts) in ins.iter().enumerate() {
            let obs = std::panic::catch_unwind(std::panic::AssertUnwindSafe(|| {
                if inst == "char" {
                    let s: String = ts.iter().map(|&t| char::from_u32(t).unwrap_or('\u{fffd}')).collect();
                    let kw: String = params.iter().map(|&t| char::from_u32(t).unwrap_or('\u{fffd}')).collect();
                    let kw: &str = &kw;
                    let s: &str = &s;
                    dispatch!(pname, params, observe_str, s, kw, observe_str(text::newline().to_slice(), s))
                } else if inst == "gr" {
                    let s: String = ts.iter().map(|&t| char::from_u32(t).unwrap_or('\u{fffd}')).collect();
                    let g: &text::Graphemes = text::Graphemes::new(&s);
                    match pname {
                        "ws" => observe_gr(text::whitespace().to_slice(), g),
                        "iws" => observe_gr(text::inline_whitespace().to_slice(), g),
                        "digits" => observe_gr(text::digits(params.first().copied().unwrap_or(10)).to_slice(), g),
                        "int" => observe_gr(text::int(params.first().copied().unwrap_or(10)), g),
                        "uident" => observe_gr(text::unicode::ident(), g),
                        "pad_int" => observe_gr(text::int(params.first().copied().unwrap_or(10)).padded(), g),
                        "newline" => observe_gr(text::newline().to_slice(), g),
                        other => format!("ERR unknown-parser-{other}"),
                    }
                } else {
                    let s: Vec<u8> = ts.iter().map(|&t| t as u8).collect();
                    let kw: Vec<u8> = params.iter().map(|&t| t as u8).collect();
                    let kw: &[u8] = &kw;
                    let s: &[u8] = &s;
                    dispatch!(pname, params, observe_u8, s, kw, "ERR newline-not-available-for-u8".to_string())
                }
            }))
            .unwrap_or_else(|_| "P panic".to_string());
            let _ = writeln!(w, "{id}.{k} M {obs}");
        }
    }
    let _ = w.flush();
}
