//! The remaining input kinds, Rich errors only (instantiated in the `h_kinds_rich` binary, not in the library).
use std::io::Write;
use std::panic::{catch_unwind, AssertUnwindSafe};

use chumsky::error::Rich;

use chumsky_verif_harness::ast::*;
use chumsky_verif_harness::build::*;
use chumsky_verif_harness::run::*;
use chumsky_verif_harness::val::*;

/// the remaining input kinds, Rich errors only (one binary): arrays, boxed streams, mapped IoInput, with_context, map_span
pub fn case_kinds(case: &Case, w: &mut dyn Write) {
    type E<'a> = Rich<'a, char, Sp>;
    let data: Vec<Vec<char>> = case.inputs.iter().map(|ts| ts.iter().map(|&t| to_char(t)).collect()).collect();
    match case.kind {
        Kind::Array => {
            fn go<'src, const N: usize>(case: &Case, data: &'src [Vec<char>], ks: &[usize], w: &mut dyn Write) {
                let built = catch_unwind(AssertUnwindSafe(|| build_case::<&'src [char; N], E<'src>>(case)));
                for &k in ks {
                    let arr: &'src [char; N] = data[k][..].try_into().unwrap();
                    let obs = match &built {
                        Ok(p) => {
                            BASE.with(|b| b.set(arr.as_ptr() as usize));
                            run_one::<&'src [char; N], E<'src>>(p, case.mode, arr)
                        }
                        Err(_) => format!("P {}", LAST_PANIC.with(|p| p.borrow().clone())),
                    };
                    let _ = writeln!(w, "{}.{} M {}", case.id, k, obs);
                }
            }
            for n in 0..=8usize {
                let ks: Vec<usize> = (0..data.len()).filter(|&k| data[k].len() == n).collect();
                if ks.is_empty() {
                    continue;
                }
                match n {
                    0 => go::<0>(case, &data, &ks, w),
                    1 => go::<1>(case, &data, &ks, w),
                    2 => go::<2>(case, &data, &ks, w),
                    3 => go::<3>(case, &data, &ks, w),
                    4 => go::<4>(case, &data, &ks, w),
                    5 => go::<5>(case, &data, &ks, w),
                    6 => go::<6>(case, &data, &ks, w),
                    7 => go::<7>(case, &data, &ks, w),
                    _ => go::<8>(case, &data, &ks, w),
                }
            }
            for k in 0..data.len() {
                if data[k].len() > 8 {
                    let _ = writeln!(w, "{}.{} M SKIP array-too-long", case.id, k);
                }
            }
        }
        Kind::BStream => emit_all::<BoxedCharStream, E<'static>>(case, w, |k| {
            chumsky::input::Stream::from_iter(data[k].clone()).boxed()
        }),
        Kind::IoMap => emit_all::<MappedIo, E<'static>>(case, w, |k| {
            let bytes: Vec<u8> = data[k].iter().map(|&c| c as u32 as u8).collect();
            let f: fn(u8) -> (char, Sp) = io_pair;
            chumsky::input::Input::map(chumsky::input::IoInput::new(chumsky_verif_harness::build::Flaky::new(bytes)), Sp::from(200..200), f)
        }),
        Kind::WCtx => {
            fn go<'src>(case: &Case, data: &'src [Vec<char>], w: &mut dyn Write) {
                let built = catch_unwind(AssertUnwindSafe(|| build_case::<WithCtx<'src>, E<'src>>(case)));
                for k in 0..data.len() {
                    let obs = match &built {
                        Ok(p) => {
                            BASE.with(|b| b.set(data[k].as_ptr() as usize));
                            run_one::<WithCtx<'src>, E<'src>>(p, case.mode, chumsky::input::Input::with_context(&data[k][..], ()))
                        }
                        Err(_) => format!("P {}", LAST_PANIC.with(|p| p.borrow().clone())),
                    };
                    let _ = writeln!(w, "{}.{} M {}", case.id, k, obs);
                }
            }
            go(case, &data, w)
        }
        Kind::MSpan => {
            fn go<'src>(case: &Case, data: &'src [Vec<char>], w: &mut dyn Write) {
                emit_all::<MSpanSlice<'src>, E<'src>>(case, w, |k| {
                    let f: fn(Sp) -> Sp = shift_span;
                    chumsky::input::Input::map_span(&data[k][..], f)
                })
            }
            go(case, &data, w)
        }
        _ => {
            let _ = writeln!(w, "ERR wrong binary for this case :: {}", case.id);
        }
    }
}

