//! C09: `atom.pratt(ops)` with dynamically built operator tables (Vec of boxed operators, tuples of boxed operators).
//!   PR <id> <ek> <kind> <mode> <fuel> A <atom> O <n> (infixl|infixr|prefix|postfix) <bp> <op> ... I <inputspec>
//! table flavour from the id: v… = Vec, t… = tuple (1..=5 operators), anything else = Vec

use std::io::{BufRead, Write};

use chumsky::error::Rich;
use chumsky::pratt::{self, infix, left, postfix, prefix, right, Operator};
use chumsky::prelude::*;

use chumsky_verif_harness::ast::*;
use chumsky_verif_harness::build::*;
use chumsky_verif_harness::run::{run_one, BASE};
use chumsky_verif_harness::val::*;

type BOp<'src, I, E> = pratt::Boxed<'src, 'src, I, Val, Ex<E>>;

#[derive(Clone)]
pub enum OpK {
    Infix(bool, u16),
    Prefix(u16),
    Postfix(u16),
}

fn fold_in(l: Val, op: Val, r: Val, sp: Sp) -> Val {
    Val::tag(20, Val::pair(Val::pair(Val::pair(l, op), r), Val::span(sp)))
}
fn fold_pre(op: Val, r: Val, sp: Sp) -> Val {
    Val::tag(21, Val::pair(Val::pair(op, r), Val::span(sp)))
}
fn fold_post(l: Val, op: Val, sp: Sp) -> Val {
    Val::tag(22, Val::pair(Val::pair(l, op), Val::span(sp)))
}

fn build_op<'src, I: HInput<'src>, E: HErr<'src, I>>(k: &OpK, p: BP<'src, I, E>) -> BOp<'src, I, E> {
    match k {
        OpK::Infix(true, bp) => infix(left(*bp), p, |l, op, r, e: &mut chumsky::input::MapExtra<'src, '_, I, Ex<E>>| {
            fold_in(l, op, r, e.span())
        })
        .boxed(),
        OpK::Infix(false, bp) => infix(right(*bp), p, |l, op, r, e: &mut chumsky::input::MapExtra<'src, '_, I, Ex<E>>| {
            fold_in(l, op, r, e.span())
        })
        .boxed(),
        OpK::Prefix(bp) => prefix(*bp, p, |op, r, e: &mut chumsky::input::MapExtra<'src, '_, I, Ex<E>>| {
            fold_pre(op, r, e.span())
        })
        .boxed(),
        OpK::Postfix(bp) => postfix(*bp, p, |l, op, e: &mut chumsky::input::MapExtra<'src, '_, I, Ex<E>>| {
            fold_post(l, op, e.span())
        })
        .boxed(),
    }
}

fn build_table<'src, I: HInput<'src>, E: HErr<'src, I>>(
    id: &str,
    atom: &G,
    ops: &[(OpK, G)],
    rec: bool,
) -> BP<'src, I, E> {
    if rec {
        // `recursive(|e| atom.pratt(ops))`: `call 0` inside the atom and the operator parsers is `e`
        let id = id.to_string();
        let atom = atom.clone();
        let ops: Vec<(OpK, G)> = ops.iter().map(|(k, g)| (k.clone(), g.clone())).collect();
        return chumsky::recursive::recursive(move |e| {
            let cx: Cx<'src, I, E> = Cx { defs: vec![e.boxed()], base: 0 };
            build_table_in(&id, &atom, &ops, &cx)
        })
        .boxed();
    }
    let cx: Cx<'src, I, E> = Cx { defs: vec![], base: 0 };
    build_table_in(id, atom, ops, &cx)
}

pub fn build_table_in<'src, I: HInput<'src>, E: HErr<'src, I>>(
    id: &str,
    atom: &G,
    ops: &[(OpK, G)],
    cx: &Cx<'src, I, E>,
) -> BP<'src, I, E> {
    let a = build(atom, cx);
    let bops: Vec<BOp<'src, I, E>> = ops.iter().map(|(k, g)| build_op(k, build(g, cx))).collect();
    if id.starts_with('t') {
        match bops.len() {
            1 => return a.pratt((bops[0].clone(),)).boxed(),
            2 => return a.pratt((bops[0].clone(), bops[1].clone())).boxed(),
            3 => return a.pratt((bops[0].clone(), bops[1].clone(), bops[2].clone())).boxed(),
            4 => return a.pratt((bops[0].clone(), bops[1].clone(), bops[2].clone(), bops[3].clone())).boxed(),
            5 => {
                return a
                    .pratt((bops[0].clone(), bops[1].clone(), bops[2].clone(), bops[3].clone(), bops[4].clone()))
                    .boxed()
            }
            _ => {}
        }
    }
    a.pratt(bops).boxed()
}

pub fn read_op(rd: &mut Rd) -> Result<(OpK, G), String> {
    let k = match rd.tok()? {
        "infixl" => OpK::Infix(true, rd.nat()? as u16),
        "infixr" => OpK::Infix(false, rd.nat()? as u16),
        "prefix" => OpK::Prefix(rd.nat()? as u16),
        "postfix" => OpK::Postfix(rd.nat()? as u16),
        t => return Err(format!("bad pratt operator {t}")),
    };
    Ok((k, rd.g()?))
}

#[allow(dead_code)]
pub fn main() {
    chumsky_verif_harness::run::install_panic_hook();
    let stdin = std::io::stdin();
    let stdout = std::io::stdout();
    let mut w = std::io::BufWriter::new(stdout.lock());
    for line in stdin.lock().lines() {
        let line = match line {
            Ok(l) => l,
            Err(_) => break,
        };
        let Some(rest) = line.strip_prefix("PR ") else { continue };
        let mut rd = Rd::new(rest);
        let parsed = (|| -> Result<_, String> {
            let id = rd.tok()?.to_string();
            let ek = rd.tok()?.to_string();
            let kind = rd.tok()?.to_string();
            let mode = match rd.tok()? {
                "parse" => ModeK::Parse,
                _ => ModeK::Check,
            };
            let _fuel = rd.nat()?;
            let mut t = rd.tok()?;
            let rec = t == "X";
            if rec {
                t = rd.tok()?;
            }
            if t != "A" {
                return Err("expected A".into());
            }
            let atom = rd.g()?;
            if rd.tok()? != "O" {
                return Err("expected O".into());
            }
            let n = rd.nat()?;
            let mut ops = Vec::new();
            for _ in 0..n {
                ops.push(read_op(&mut rd)?);
            }
            if rd.tok()? != "I" {
                return Err("expected I".into());
            }
            let inputs = rd.inputs()?;
            Ok((id, mode, atom, ops, inputs, rec, ek, kind))
        })();
        match parsed {
            Err(e) => {
                let _ = writeln!(w, "ERR {e} :: {line}");
            }
            Ok((id, mode, atom, ops, inputs, rec, ek, kind)) => {
                let strs: Vec<String> = inputs
                    .iter()
                    .map(|ts| ts.iter().map(|&t| char::from_u32(t).unwrap_or('\u{fffd}')).collect())
                    .collect();
                let strs: &[String] = &strs;
                let vecs: Vec<Vec<char>> = strs.iter().map(|s| s.chars().collect()).collect();
                let vecs: &[Vec<char>] = &vecs;
                macro_rules! go {
                    ($I:ty, $E:ty, $mk:expr, $base:expr) => {{
                        let p = build_table::<$I, $E>(&id, &atom, &ops, rec);
                        for k in 0..strs.len() {
                            BASE.with(|b| b.set($base(k)));
                            let obs = run_one::<$I, $E>(&p, mode, $mk(k));
                            let _ = writeln!(w, "{id}.{k} M {obs}");
                        }
                    }};
                }
                match (kind.as_str(), ek.as_str()) {
                    ("slice", "cheap") => go!(&[char], chumsky::error::Cheap<Sp>, |k: usize| &vecs[k][..], |k: usize| vecs[k].as_ptr() as usize),
                    ("slice", _) => go!(&[char], Rich<'_, char, Sp>, |k: usize| &vecs[k][..], |k: usize| vecs[k].as_ptr() as usize),
                    (_, "cheap") => go!(&str, chumsky::error::Cheap<Sp>, |k: usize| strs[k].as_str(), |k: usize| strs[k].as_ptr() as usize),
                    _ => go!(&str, Rich<'_, char, Sp>, |k: usize| strs[k].as_str(), |k: usize| strs[k].as_ptr() as usize),
                }
            }
        }
    }
    let _ = w.flush();
}
