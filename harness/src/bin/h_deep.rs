fn main() {
    chumsky_verif_harness::deep::main();
}
