#[path = "../deep.rs"]
mod deep;
fn main() {
    deep::main();
}
