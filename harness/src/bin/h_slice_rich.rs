use chumsky_verif_harness::ast::{Kind, EK};
use chumsky_verif_harness::run;
fn main() {
    run::main_loop((Kind::Slice, EK::Rich), run::case_slice::<run::RichK>);
}
