use chumsky_verif_harness::ast::{Kind, EK};
use chumsky_verif_harness::run;
fn main() {
    run::main_loop((Kind::Str, EK::Empty), run::case_str::<run::EmptyK>);
}
