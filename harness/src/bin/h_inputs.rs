#[path = "../inputs.rs"]
mod inputs;
fn main() {
    inputs::main();
}
