fn main() {
    chumsky_verif_harness::inputs::main();
}
