#[path = "../pratt.rs"]
mod pratt;
fn main() {
    pratt::main();
}
