fn main() {
    chumsky_verif_harness::pratt::main();
}
