#[path = "../kinds.rs"]
mod kinds;
use std::io::{BufRead, Write};
use chumsky_verif_harness::ast::Rd;
use chumsky_verif_harness::run;
fn main() {
    run::install_panic_hook();
    let stdin = std::io::stdin();
    let stdout = std::io::stdout();
    let mut w = std::io::BufWriter::new(stdout.lock());
    for line in stdin.lock().lines() {
        let Ok(line) = line else { break };
        if line.trim().is_empty() {
            continue;
        }
        let mut rd = Rd::new(&line);
        match rd.case() {
            Ok(case) => kinds::case_kinds(&case, &mut w),
            Err(e) => {
                let _ = writeln!(w, "ERR {} :: {}", e, line.trim());
            }
        }
    }
    let _ = w.flush();
}
