use chumsky_verif_harness::ast::{Kind, EK};
use chumsky_verif_harness::run;
fn main() {
    run::main_loop((Kind::Mapped(0), EK::Rich), run::case_mapped::<run::RichK>);
}
