use chumsky_verif_harness::ast::{Kind, EK};
use chumsky_verif_harness::run;
fn main() {
    run::main_loop((Kind::Str, EK::Cheap), run::case_str::<run::CheapK>);
}
