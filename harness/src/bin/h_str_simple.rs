use chumsky_verif_harness::ast::{Kind, EK};
use chumsky_verif_harness::run;
fn main() {
    run::main_loop((Kind::Str, EK::Simple), run::case_str::<run::SimpleK>);
}
