use chumsky_verif_harness::ast::{Kind, EK};
use chumsky_verif_harness::run;
fn main() {
    run::main_loop((Kind::MStream(0), EK::Rich), run::case_mstream::<run::RichK>);
}
