use chumsky_verif_harness::ast::{Kind, EK};
use chumsky_verif_harness::run;
fn main() {
    run::main_loop((Kind::Stream, EK::Rich), run::case_stream::<run::RichK>);
}
