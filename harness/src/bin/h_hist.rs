#[path = "../hist.rs"]
mod hist;
fn main() {
    hist::main();
}
