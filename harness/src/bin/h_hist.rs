fn main() {
    chumsky_verif_harness::hist::main();
}
