fn main() {
    chumsky_verif_harness::nested::main();
}
