#[path = "../nested.rs"]
mod nested;
fn main() {
    nested::main();
}
