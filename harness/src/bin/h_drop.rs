#[path = "../drops.rs"]
mod drops;
fn main() {
    drops::main();
}
