fn main() {
    chumsky_verif_harness::drops::main();
}
