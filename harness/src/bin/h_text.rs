#[path = "../text.rs"]
mod text;
fn main() {
    text::main();
}
