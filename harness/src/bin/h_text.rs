fn main() {
    chumsky_verif_harness::text::main();
}
