//! C16: two-level grammars with `nested_in` over token trees.
//!
//!   NG <id> <ek> <gap> <mode> <fuel> T <ngroups> (<gid> <n> kid1..kidn)* G <ngram> I <inputspec>
//!   ngram ::= lift <G> | nest <ngram> <G> | nthen <ngram> <ngram> | nor <ngram> <ngram> | nornot <ngram> | nspan <ngram>
//!
//! A token is a `char`; the group table says which tokens are groups and what their children are. Every level is an
//! `Input::map` over a slice of `(char, Span)` pairs laid out with the same span discipline (`run::mapped_tokens`). The
//! token parser `b` of `a.nested_in(b)` is an ordinary grammar whose output (`select!`-style `tag 7 (tok t)` or `tok t`)
//! names the group; the harness turns it into the inner input. Mirrors lean/ChumskyModel/Model/Nested.lean.

use std::collections::HashMap;
use std::io::{BufRead, Write};

use chumsky::error::Rich;
use chumsky::prelude::*;

use chumsky_verif_harness::ast::*;
use chumsky_verif_harness::build::*;
use chumsky_verif_harness::run::{mapped_tokens, run_one};
use chumsky_verif_harness::val::*;

#[path = "pratt.rs"]
#[allow(dead_code)]
mod pratt;

/// `EX` lines: several extensions at once (model: `Model/Ext.lean`); `call i` is extension `i` everywhere
///   EX <id> <ek> <gap> <mode> <fuel> T <ngroups> (<gid> <n> kids..)* X <n> ( P A <atom> O <nops> <op>.. | N A <a> B <b> )* M <main> I <inputspec>
enum ExtK {
    Pratt(G, Vec<(pratt::OpK, G)>),
    Nested(G, G),
}

struct ECase {
    id: String,
    ek: String,
    gap: usize,
    mode: ModeK,
    groups: Vec<(u32, Vec<u32>)>,
    exts: Vec<ExtK>,
    main: G,
    inputs: Vec<Vec<u32>>,
}

fn read_ecase(rest: &str) -> Result<ECase, String> {
    let mut rd = Rd::new(rest);
    let id = rd.tok()?.to_string();
    let ek = rd.tok()?.to_string();
    let gap = rd.nat()? as usize;
    let mode = match rd.tok()? {
        "parse" => ModeK::Parse,
        "check" => ModeK::Check,
        t => return Err(format!("bad mode {t}")),
    };
    let _fuel = rd.nat()?;
    if rd.tok()? != "T" {
        return Err("expected T".into());
    }
    let ng = rd.nat()?;
    let mut groups = Vec::new();
    for _ in 0..ng {
        let gid = rd.nat()? as u32;
        let kids = rd.nat_list()?;
        groups.push((gid, kids));
    }
    if rd.tok()? != "X" {
        return Err("expected X".into());
    }
    let nx = rd.nat()?;
    let mut exts = Vec::new();
    for _ in 0..nx {
        match rd.tok()? {
            "P" => {
                if rd.tok()? != "A" {
                    return Err("expected A".into());
                }
                let atom = rd.g()?;
                if rd.tok()? != "O" {
                    return Err("expected O".into());
                }
                let n = rd.nat()?;
                let mut ops = Vec::new();
                for _ in 0..n {
                    ops.push(pratt::read_op(&mut rd)?);
                }
                exts.push(ExtK::Pratt(atom, ops));
            }
            "N" => {
                if rd.tok()? != "A" {
                    return Err("expected A".into());
                }
                let a = rd.g()?;
                if rd.tok()? != "B" {
                    return Err("expected B".into());
                }
                exts.push(ExtK::Nested(a, rd.g()?));
            }
            t => return Err(format!("bad extension kind {t}")),
        }
    }
    if rd.tok()? != "M" {
        return Err("expected M".into());
    }
    let main = rd.g()?;
    if rd.tok()? != "I" {
        return Err("expected I".into());
    }
    let inputs = rd.inputs()?;
    Ok(ECase { id, ek, gap, mode, groups, exts, main, inputs })
}

fn run_ecase<'src, E: HErr<'src, MappedSlice<'src>>>(
    c: &ECase,
    groups: &'src Groups,
    data: &'src [(Vec<(char, Sp)>, Sp)],
    w: &mut dyn Write,
) {
    let built = std::panic::catch_unwind(std::panic::AssertUnwindSafe(|| {
        let mut holes: Vec<Rec<'src, MappedSlice<'src>, E>> =
            c.exts.iter().map(|_| chumsky::recursive::Recursive::declare()).collect();
        let cx: Cx<'src, MappedSlice<'src>, E> = Cx { defs: holes.iter().map(|h| h.clone().boxed()).collect(), base: 0 };
        for (i, x) in c.exts.iter().enumerate() {
            match x {
                ExtK::Pratt(atom, ops) => {
                    let p = pratt::build_table_in(if i % 2 == 0 { "v" } else { "t" }, atom, ops, &cx);
                    holes[i].define(p);
                }
                ExtK::Nested(a, b) => {
                    let pa = build(a, &cx);
                    let pb = build(b, &cx).map(move |v: Val| -> MappedSlice<'src> {
                        let t = group_of(&v).expect("harness: nested_in token parser did not yield a token");
                        let (toks, eoi) = groups.get(&t).expect("harness: not a group token");
                        let f: fn(&'src (char, Sp)) -> (&'src char, &'src Sp) = proj_pair;
                        chumsky::input::Input::map(&toks[..], *eoi, f)
                    });
                    holes[i].define(pa.nested_in(pb));
                }
            }
        }
        build(&c.main, &cx)
    }));
    for k in 0..data.len() {
        let obs = match &built {
            Ok(p) => {
                let f: fn(&'src (char, Sp)) -> (&'src char, &'src Sp) = proj_pair;
                let inp: MappedSlice<'src> = chumsky::input::Input::map(&data[k].0[..], data[k].1, f);
                run_one::<MappedSlice<'src>, E>(p, c.mode, inp)
            }
            Err(_) => "P harness-build".to_string(),
        };
        let _ = writeln!(w, "{}.{} M {}", c.id, k, obs);
    }
}

pub enum NG {
    Lift(G),
    Nest(Box<NG>, G),
    Then(Box<NG>, Box<NG>),
    Or(Box<NG>, Box<NG>),
    OrNot(Box<NG>),
    Span(Box<NG>),
}

type Groups = HashMap<u32, (Vec<(char, Sp)>, Sp)>;

fn read_ng(rd: &mut Rd) -> Result<NG, String> {
    Ok(match rd.tok()? {
        "lift" => NG::Lift(rd.g()?),
        "nest" => {
            let a = read_ng(rd)?;
            NG::Nest(Box::new(a), rd.g()?)
        }
        "nthen" => NG::Then(Box::new(read_ng(rd)?), Box::new(read_ng(rd)?)),
        "nor" => NG::Or(Box::new(read_ng(rd)?), Box::new(read_ng(rd)?)),
        "nornot" => NG::OrNot(Box::new(read_ng(rd)?)),
        "nspan" => NG::Span(Box::new(read_ng(rd)?)),
        t => return Err(format!("bad nested grammar token {t}")),
    })
}

fn group_of(v: &Val) -> Option<u32> {
    match v {
        Val::Tok(t) => Some(*t),
        Val::Tag(_, inner) => match &**inner {
            Val::Tok(t) => Some(*t),
            _ => None,
        },
        _ => None,
    }
}

fn build_n<'src, E: HErr<'src, MappedSlice<'src>>>(
    g: &NG,
    cx: &Cx<'src, MappedSlice<'src>, E>,
    groups: &'src Groups,
) -> BP<'src, MappedSlice<'src>, E> {
    match g {
        NG::Lift(g) => build(g, cx),
        NG::Then(a, b) => build_n(a, cx, groups).then(build_n(b, cx, groups)).map(|(a, b)| Val::pair(a, b)).boxed(),
        NG::Or(a, b) => build_n(a, cx, groups).or(build_n(b, cx, groups)).boxed(),
        NG::OrNot(a) => build_n(a, cx, groups)
            .or_not()
            .map(|o| match o {
                Some(v) => Val::Some(Box::new(v)),
                None => Val::None,
            })
            .boxed(),
        NG::Span(a) => build_n(a, cx, groups).map_with(|v, e| Val::pair(v, Val::span(e.span()))).boxed(),
        NG::Nest(a, b) => {
            let pb = build(b, cx).map(move |v: Val| -> MappedSlice<'src> {
                let t = group_of(&v).expect("harness: nested_in token parser did not yield a token");
                let (toks, eoi) = groups.get(&t).expect("harness: not a group token");
                let f: fn(&'src (char, Sp)) -> (&'src char, &'src Sp) = proj_pair;
                chumsky::input::Input::map(&toks[..], *eoi, f)
            });
            build_n(a, cx, groups).nested_in(pb).boxed()
        }
    }
}

/// `NH` lines: `a.nested_in(b)` available as `call 0` inside `a`, `b` and the main grammar (any position, any depth)
struct HCase {
    id: String,
    ek: String,
    gap: usize,
    mode: ModeK,
    groups: Vec<(u32, Vec<u32>)>,
    a: G,
    b: G,
    main: G,
    inputs: Vec<Vec<u32>>,
}

fn read_hcase(rest: &str) -> Result<HCase, String> {
    let mut rd = Rd::new(rest);
    let id = rd.tok()?.to_string();
    let ek = rd.tok()?.to_string();
    if ek != "rich" && ek != "empty" {
        return Err(format!("nested cases are Rich or EmptyErr, got {ek}"));
    }
    let gap = rd.nat()? as usize;
    let mode = match rd.tok()? {
        "parse" => ModeK::Parse,
        "check" => ModeK::Check,
        t => return Err(format!("bad mode {t}")),
    };
    let _fuel = rd.nat()?;
    if rd.tok()? != "T" {
        return Err("expected T".into());
    }
    let ng = rd.nat()?;
    let mut groups = Vec::new();
    for _ in 0..ng {
        let gid = rd.nat()? as u32;
        let kids = rd.nat_list()?;
        groups.push((gid, kids));
    }
    if rd.tok()? != "A" {
        return Err("expected A".into());
    }
    let a = rd.g()?;
    if rd.tok()? != "B" {
        return Err("expected B".into());
    }
    let b = rd.g()?;
    if rd.tok()? != "M" {
        return Err("expected M".into());
    }
    let main = rd.g()?;
    if rd.tok()? != "I" {
        return Err("expected I".into());
    }
    let inputs = rd.inputs()?;
    Ok(HCase { id, ek, gap, mode, groups, a, b, main, inputs })
}

fn run_hcase<'src, E: HErr<'src, MappedSlice<'src>>>(
    c: &HCase,
    groups: &'src Groups,
    data: &'src [(Vec<(char, Sp)>, Sp)],
    w: &mut dyn Write,
) {
    let built = std::panic::catch_unwind(std::panic::AssertUnwindSafe(|| {
        let mut hole: Rec<'src, MappedSlice<'src>, E> = chumsky::recursive::Recursive::declare();
        let cx: Cx<'src, MappedSlice<'src>, E> = Cx { defs: vec![hole.clone().boxed()], base: 0 };
        let pa = build(&c.a, &cx);
        let pb = build(&c.b, &cx).map(move |v: Val| -> MappedSlice<'src> {
            let t = group_of(&v).expect("harness: nested_in token parser did not yield a token");
            let (toks, eoi) = groups.get(&t).expect("harness: not a group token");
            let f: fn(&'src (char, Sp)) -> (&'src char, &'src Sp) = proj_pair;
            chumsky::input::Input::map(&toks[..], *eoi, f)
        });
        hole.define(pa.nested_in(pb));
        build(&c.main, &cx)
    }));
    for k in 0..data.len() {
        let obs = match &built {
            Ok(p) => {
                let f: fn(&'src (char, Sp)) -> (&'src char, &'src Sp) = proj_pair;
                let inp: MappedSlice<'src> = chumsky::input::Input::map(&data[k].0[..], data[k].1, f);
                run_one::<MappedSlice<'src>, E>(p, c.mode, inp)
            }
            Err(_) => "P harness-build".to_string(),
        };
        let _ = writeln!(w, "{}.{} M {}", c.id, k, obs);
    }
}

struct NCase {
    id: String,
    gap: usize,
    mode: ModeK,
    groups: Vec<(u32, Vec<u32>)>,
    g: NG,
    inputs: Vec<Vec<u32>>,
}

fn read_case(rest: &str) -> Result<NCase, String> {
    let mut rd = Rd::new(rest);
    let id = rd.tok()?.to_string();
    let ek = rd.tok()?;
    if ek != "rich" {
        return Err(format!("nested cases are Rich only, got {ek}"));
    }
    let gap = rd.nat()? as usize;
    let mode = match rd.tok()? {
        "parse" => ModeK::Parse,
        "check" => ModeK::Check,
        t => return Err(format!("bad mode {t}")),
    };
    let _fuel = rd.nat()?;
    if rd.tok()? != "T" {
        return Err("expected T".into());
    }
    let ng = rd.nat()?;
    let mut groups = Vec::new();
    for _ in 0..ng {
        let gid = rd.nat()? as u32;
        let kids = rd.nat_list()?;
        groups.push((gid, kids));
    }
    if rd.tok()? != "G" {
        return Err("expected G".into());
    }
    let g = read_ng(&mut rd)?;
    if rd.tok()? != "I" {
        return Err("expected I".into());
    }
    let inputs = rd.inputs()?;
    Ok(NCase { id, gap, mode, groups, g, inputs })
}

fn run_case<'src>(
    c: &NCase,
    groups: &'src Groups,
    data: &'src [(Vec<(char, Sp)>, Sp)],
    w: &mut dyn Write,
) {
    type E<'a> = Rich<'a, char, Sp>;
    let built = std::panic::catch_unwind(std::panic::AssertUnwindSafe(|| {
        let cx: Cx<'src, MappedSlice<'src>, E<'src>> = Cx { defs: vec![], base: 0 };
        build_n::<E<'src>>(&c.g, &cx, groups)
    }));
    for k in 0..data.len() {
        let obs = match &built {
            Ok(p) => {
                let f: fn(&'src (char, Sp)) -> (&'src char, &'src Sp) = proj_pair;
                let inp: MappedSlice<'src> = chumsky::input::Input::map(&data[k].0[..], data[k].1, f);
                run_one::<MappedSlice<'src>, E<'src>>(p, c.mode, inp)
            }
            Err(_) => "P harness-build".to_string(),
        };
        let _ = writeln!(w, "{}.{} M {}", c.id, k, obs);
    }
}

pub fn main() {
    chumsky_verif_harness::run::install_panic_hook();
    let stdin = std::io::stdin();
    let stdout = std::io::stdout();
    let mut w = std::io::BufWriter::new(stdout.lock());
    for line in stdin.lock().lines() {
        let Ok(line) = line else { break };
        if let Some(rest) = line.strip_prefix("EX ") {
            match read_ecase(rest) {
                Err(e) => {
                    let _ = writeln!(w, "ERR {e} :: {line}");
                }
                Ok(c) => {
                    let mut groups: Groups = HashMap::new();
                    for (gid, kids) in &c.groups {
                        groups.entry(*gid).or_insert_with(|| mapped_tokens(kids, c.gap));
                    }
                    let data: Vec<(Vec<(char, Sp)>, Sp)> = c.inputs.iter().map(|ts| mapped_tokens(ts, c.gap)).collect();
                    if c.ek == "empty" {
                        run_ecase::<chumsky::error::EmptyErr>(&c, &groups, &data, &mut w);
                    } else {
                        run_ecase::<Rich<'_, char, Sp>>(&c, &groups, &data, &mut w);
                    }
                }
            }
            continue;
        }
        if let Some(rest) = line.strip_prefix("NH ") {
            match read_hcase(rest) {
                Err(e) => {
                    let _ = writeln!(w, "ERR {e} :: {line}");
                }
                Ok(c) => {
                    let mut groups: Groups = HashMap::new();
                    for (gid, kids) in &c.groups {
                        groups.entry(*gid).or_insert_with(|| mapped_tokens(kids, c.gap));
                    }
                    let data: Vec<(Vec<(char, Sp)>, Sp)> = c.inputs.iter().map(|ts| mapped_tokens(ts, c.gap)).collect();
                    if c.ek == "empty" {
                        run_hcase::<chumsky::error::EmptyErr>(&c, &groups, &data, &mut w);
                    } else {
                        run_hcase::<Rich<'_, char, Sp>>(&c, &groups, &data, &mut w);
                    }
                }
            }
            continue;
        }
        let Some(rest) = line.strip_prefix("NG ") else { continue };
        match read_case(rest) {
            Err(e) => {
                let _ = writeln!(w, "ERR {e} :: {line}");
            }
            Ok(c) => {
                // the first occurrence of a group id wins (as `List.find?` in the model)
                let mut groups: Groups = HashMap::new();
                for (gid, kids) in &c.groups {
                    groups.entry(*gid).or_insert_with(|| mapped_tokens(kids, c.gap));
                }
                let data: Vec<(Vec<(char, Sp)>, Sp)> = c.inputs.iter().map(|ts| mapped_tokens(ts, c.gap)).collect();
                run_case(&c, &groups, &data, &mut w);
            }
        }
    }
    let _ = w.flush();
}
