//! C13: parsers are pure values. Histories of parses over a pool of inputs through every wrapper, and
//! concurrent use of one `Arc<dyn Parser + Send + Sync>`; each result compared with a fresh parser's.
//!
//! input : case lines (inputs = the pool);  output: `<id> H steps=<n> diffs=<m> wrappers=<w> [first diff]`

use std::io::{BufRead, Write};
use std::rc::Rc;
use std::sync::Arc;

use chumsky::cache::{Cache, Cached};
use chumsky::error::Rich;
use chumsky::prelude::*;

use chumsky_verif_harness::ast::*;
use chumsky_verif_harness::build::*;
use chumsky_verif_harness::run::{build_case, run_one, run_one_p, BASE};
use chumsky_verif_harness::val::*;

type E<'src> = Rich<'src, char, Sp>;

struct CaseCacher(Case);
impl Cached for CaseCacher {
    type Parser<'src> = BP<'src, &'src str, E<'src>>;
    fn make_parser<'src>(self) -> Self::Parser<'src> {
        build_case::<&'src str, E<'src>>(&self.0)
    }
}

fn clone_case(c: &Case) -> Case {
    Case {
        id: c.id.clone(),
        ek: c.ek,
        kind: c.kind,
        mode: c.mode,
        fuel: c.fuel,
        defs: c.defs.clone(),
        main: c.main.clone(),
        inputs: c.inputs.clone(),
    }
}

/// deterministic xorshift
struct Rng(u64);
impl Rng {
    fn next(&mut self) -> u64 {
        self.0 ^= self.0 << 13;
        self.0 ^= self.0 >> 7;
        self.0 ^= self.0 << 17;
        self.0
    }
}

fn histories(pool: usize, seed: u64) -> Vec<Vec<usize>> {
    let mut hs = Vec::new();
    if pool == 0 {
        return hs;
    }
    // exhaustive orders for small pools: all sequences of length <= 3 over the first (up to) 3 inputs
    let p = pool.min(3);
    for a in 0..p {
        hs.push(vec![a, a]);
        for b in 0..p {
            for c in 0..p {
                hs.push(vec![a, b, c]);
            }
        }
    }
    // seeded random histories of length 6 over the whole pool
    let mut rng = Rng(seed | 1);
    for _ in 0..12 {
        hs.push((0..6).map(|_| (rng.next() % pool as u64) as usize).collect());
    }
    hs
}

pub fn run_case_hist(case: &Case, seed: u64, w: &mut dyn Write) {
    let inputs: Vec<String> = case
        .inputs
        .iter()
        .map(|ts| ts.iter().map(|&t| char::from_u32(t).unwrap_or('\u{fffd}')).collect())
        .collect();
    let inputs: &[String] = &inputs;
    // reference: a fresh parser for every input
    let fresh: Vec<String> = inputs
        .iter()
        .map(|inp| {
            let p = build_case::<&str, E>(case);
            BASE.with(|b| b.set(inp.as_ptr() as usize));
            run_one::<&str, E>(&p, case.mode, inp.as_str())
        })
        .collect();
    let p = build_case::<&str, E>(case);
    let cache = Cache::new(CaseCacher(clone_case(case)));
    let mut steps = 0usize;
    let mut diffs = 0usize;
    let mut first = String::new();
    let wrappers = 9;
    let bx = Box::new(p.clone());
    let rc = Rc::new(p.clone());
    let arc = Arc::new(p.clone());
    let bb = p.clone().boxed().boxed();
    let left = either::Either::<BP<&str, E>, BP<&str, E>>::Left(p.clone());
    let right = either::Either::<BP<&str, E>, BP<&str, E>>::Right(p.clone());
    for (hn, h) in histories(inputs.len(), seed).iter().enumerate() {
        // one wrapper per history, all wrappers over the *same* underlying parser object `p`
        let wk = hn % wrappers;
        for &i in h {
            let inp = &inputs[i];
            BASE.with(|b| b.set(inp.as_ptr() as usize));
            let s = inp.as_str();
            let m = case.mode;
            let got = match wk {
                0 => run_one_p::<&str, E, _>(&p.clone(), m, s),
                1 => run_one_p::<&str, E, _>(&&p, m, s),
                2 => run_one_p::<&str, E, _>(&bx, m, s),
                3 => run_one_p::<&str, E, _>(&rc, m, s),
                4 => run_one_p::<&str, E, _>(&arc, m, s),
                5 => run_one_p::<&str, E, _>(&bb, m, s),
                6 => run_one_p::<&str, E, _>(&left, m, s),
                7 => run_one_p::<&str, E, _>(&right, m, s),
                _ => run_one_p::<&str, E, _>(cache.get(), m, s),
            };
            steps += 1;
            // a parser value that cannot be used at all (panics for a reason other than the documented debug assertions) is
            // not "the result a freshly constructed parser gives" either: e.g. a clone that died with the value it was cloned from
            let unusable = got.starts_with("P ") && !got.contains("no-progress") && !got.contains("todo");
            if got != fresh[i] || unusable {
                diffs += 1;
                if first.is_empty() {
                    first = format!("wrapper={} history={:?} step-input={} got=[{}] fresh=[{}]", wk, h, i, got, fresh[i]);
                }
            }
        }
    }
    let _ = writeln!(w, "{} H steps={} diffs={} wrappers={} {}", case.id, steps, diffs, wrappers, first);
}

// ------------------------------------------------------------------------------------------------
// threads: statically typed parsers (no Rc inside) behind Arc<dyn Parser + Send + Sync>

type SE = extra::Full<Rich<'static, char, Sp>, Insp, Val>;
type DynP = Arc<dyn Parser<'static, &'static str, Val, SE> + Send + Sync>;

fn static_parsers() -> Vec<(&'static str, DynP)> {
    let item = just::<_, &'static str, SE>('a').or(just('b')).map(|c: char| Val::Tok(c as u32));
    let p1 = item
        .clone()
        .separated_by(just(','))
        .allow_trailing()
        .collect::<Vec<Val>>()
        .map(Val::list);
    let p2 = just::<_, &'static str, SE>('a')
        .then(any().or_not())
        .map(|(a, b): (char, Option<char>)| Val::pair(Val::Tok(a as u32), b.map(|c| Val::Tok(c as u32)).unwrap_or(Val::None)))
        .recover_with(via_parser(any().repeated().to(Val::Nat(9))));
    let p3 = any::<&'static str, SE>()
        .filter(|c: &char| c.is_ascii_alphabetic())
        .repeated()
        .at_least(1)
        .to_slice()
        .map(|s: &str| Val::Nat(s.len() as u64))
        .then_ignore(just(';').or_not())
        .memoized()
        .or(just("::").to(Val::Unit))
        .validate(|v, e, em| {
            if v == Val::Nat(3) {
                em.emit(Rich::custom(e.span(), "m7"));
            }
            v
        });
    let p4 = just::<_, &'static str, SE>('(')
        .ignore_then(item.clone().repeated().count())
        .then_ignore(just(')'))
        .map(|n| Val::Nat(n as u64))
        .labelled("group".to_string())
        .map_with(|v, e| Val::pair(v, e.state().val()));
    vec![
        ("sep", Arc::new(p1) as DynP),
        ("recover", Arc::new(p2) as DynP),
        ("memo-validate", Arc::new(p3) as DynP),
        ("label-state", Arc::new(p4) as DynP),
    ]
}

fn run_static(p: &DynP, input: &'static str) -> String {
    let mut st = Insp::default();
    let (o, errs) = p.parse_with_state(input, &mut st).into_output_errors();
    let mut s = String::new();
    match o {
        Some(v) => v.render(&mut s),
        None => s.push_str("none"),
    }
    for e in errs {
        s.push('|');
        <Rich<'static, char, Sp> as HErr<'static, &'static str>>::render(&e, &mut s);
    }
    s
}

// ------------------------------------------------------------------------------------------------
// statically dispatched parser vs the same parser behind every dynamic wrapper, in value and in check-only positions

fn emitter() -> impl Parser<'static, &'static str, Val, SE> + Clone + Send + Sync {
    one_of::<_, &'static str, SE>("ab").map(|c: char| Val::Tok(c as u32)).validate(|v, e, em| {
        if v == Val::Tok('b' as u32) {
            em.emit(Rich::custom(e.span(), "m8"));
        }
        v
    })
}

fn positions<P>(name: &str, q: P, out: &mut Vec<(String, String)>)
where
    P: Parser<'static, &'static str, Val, SE> + Clone,
{
    let pool: [&'static str; 8] = ["", "a", "b", "ab", "ba", "bb", "bx", "abb"];
    fn show<O>(r: chumsky::ParseResult<O, Rich<'static, char, Sp>>, f: impl Fn(O) -> String) -> String {
        let (o, errs) = r.into_output_errors();
        let mut s = o.map(f).unwrap_or_else(|| "none".to_string());
        for e in errs {
            s.push('|');
            <Rich<'static, char, Sp> as HErr<'static, &'static str>>::render(&e, &mut s);
        }
        s
    }
    let val = |v: Val| {
        let mut s = String::new();
        v.render(&mut s);
        s
    };
    for inp in pool {
        let mut st = Insp::default();
        out.push((format!("{name}/value/{inp}"), show(q.clone().repeated().collect::<Vec<_>>().map(Val::list).parse_with_state(inp, &mut st), val)));
        out.push((format!("{name}/to_slice/{inp}"), show(q.clone().repeated().to_slice().parse_with_state(inp, &mut st), |s: &str| s.to_string())));
        out.push((format!("{name}/ignored/{inp}"), show(q.clone().repeated().ignored().parse_with_state(inp, &mut st), |_| "u".to_string())));
        out.push((format!("{name}/then_ignore/{inp}"), show(any().or_not().rewind().then_ignore(q.clone().repeated()).parse_with_state(inp, &mut st), |_| "u".to_string())));
        out.push((format!("{name}/delim/{inp}"), show(empty().delimited_by(q.clone().or_not(), q.clone().repeated()).parse_with_state(inp, &mut st), |_| "u".to_string())));
        out.push((format!("{name}/check/{inp}"), show(q.clone().repeated().collect::<Vec<_>>().check_with_state(inp, &mut st), |_| "u".to_string())));
    }
}

pub fn run_wrappers(w: &mut dyn Write) {
    let mut base = Vec::new();
    positions("static", emitter(), &mut base);
    let mut variants: Vec<(&str, Vec<(String, String)>)> = Vec::new();
    macro_rules! variant {
        ($name:expr, $p:expr) => {{
            let mut v = Vec::new();
            positions("static", $p, &mut v);
            variants.push(($name, v));
        }};
    }
    variant!("boxed", emitter().boxed());
    variant!("boxed-clone", emitter().boxed().clone());
    variant!("boxed-boxed", emitter().boxed().boxed());
    let arc0: Arc<dyn Parser<'static, &'static str, Val, SE> + Send + Sync> = Arc::new(emitter());
    let arc: &'static Arc<dyn Parser<'static, &'static str, Val, SE> + Send + Sync> = Box::leak(Box::new(arc0));
    let arc_dyn: &'static (dyn Parser<'static, &'static str, Val, SE> + Send + Sync) = &**arc;
    variant!("arc-dyn", arc_dyn);
    let bx0: Box<dyn Parser<'static, &'static str, Val, SE>> = Box::new(emitter());
    let bx: &'static Box<dyn Parser<'static, &'static str, Val, SE>> = Box::leak(Box::new(bx0));
    let box_dyn: &'static dyn Parser<'static, &'static str, Val, SE> = &**bx;
    variant!("box-dyn", box_dyn);
    variant!("rc", Rc::new(emitter()));
    variant!("box", Rc::new(Box::new(emitter())));
    variant!("recursive", recursive(|_| emitter()));
    variant!("either", either::Either::<_, chumsky::primitive::Todo<&'static str, Val, SE>>::Left(emitter()));
    {
        let e = emitter();
        let mut v = Vec::new();
        // `&P` is a parser too; it is not `Clone`-able into an owned value, so it goes through `Rc<&'static P>`-free positions
        let leaked: &'static _ = Box::leak(Box::new(e));
        positions("static", leaked, &mut v);
        variants.push(("ref", v));
    }
    for (name, v) in variants {
        let mut diffs = 0;
        let mut first = String::new();
        for ((k, a), (_, b)) in base.iter().zip(v.iter()) {
            if a != b {
                diffs += 1;
                if first.is_empty() {
                    first = format!("{k}: static=[{a}] wrapped=[{b}]");
                }
            }
        }
        let _ = writeln!(w, "W-{} H steps={} diffs={} wrappers=1 {}", name, base.len(), diffs, first);
    }
}

/// long histories: ONE parser value used for `n` parses in a row (thousands, not six): a counter, cache or table that lives in the
/// parser value and is not reset at a parse boundary shows only after many parses. Recursive handles (built with `recursive()`
/// and with declare / define, plain, boxed and cloned), a memoized parser and the static parsers of the thread runs; every
/// result is compared with the result of a freshly built parser on the same input.
pub fn run_long(n: usize, w: &mut dyn Write) {
    fn parens() -> impl Parser<'static, &'static str, Val, SE> + Clone {
        recursive(|p| {
            p.delimited_by(just('('), just(')')).map(|v: Val| Val::pair(Val::Unit, v)).or(just('x').to(Val::Unit))
        })
    }
    fn mutual() -> impl Parser<'static, &'static str, Val, SE> + Clone {
        let mut a = chumsky::recursive::Recursive::declare();
        let mut b = chumsky::recursive::Recursive::declare();
        a.define(just::<_, &'static str, SE>('(').ignore_then(b.clone()).map(|v: Val| Val::pair(Val::Nat(1), v)).or(just('x').to(Val::Unit)));
        b.define(a.clone().then_ignore(just(')')).or(just('y').to(Val::Nat(2))));
        a
    }
    fn memo() -> impl Parser<'static, &'static str, Val, SE> + Clone {
        let inner = just::<_, &'static str, SE>('(').repeated().at_least(1).count().map(|n| Val::Nat(n as u64)).memoized();
        inner.clone().then_ignore(just('x')).or(inner.then_ignore(just('y'))).then_ignore(any().repeated())
    }
    let pool: Vec<&'static str> = vec!["x", "(x)", "((x))", "(", "(x", "", "y", "(((x)))", "((y", "(y)"];
    fn go<P: Parser<'static, &'static str, Val, SE>>(p: &P, input: &'static str) -> String {
        let mut st = Insp::default();
        let (o, errs) = p.parse_with_state(input, &mut st).into_output_errors();
        let mut s = String::new();
        match o {
            Some(v) => v.render(&mut s),
            None => s.push_str("none"),
        }
        for e in errs {
            s.push('|');
            <Rich<'static, char, Sp> as HErr<'static, &'static str>>::render(&e, &mut s);
        }
        s
    }
    macro_rules! long {
        ($name:expr, $mk:expr) => {{
            let fresh: Vec<String> = pool.iter().map(|i| go(&$mk, i)).collect();
            let p = $mk;
            let mut diffs = 0usize;
            let mut first = usize::MAX;
            for step in 0..n {
                let i = (step * 7 + step / pool.len()) % pool.len();
                let got = std::panic::catch_unwind(std::panic::AssertUnwindSafe(|| go(&p, pool[i]))).unwrap_or_else(|_| "P panic".to_string());
                if got != fresh[i] {
                    diffs += 1;
                    if first == usize::MAX {
                        first = step;
                    }
                }
            }
            let _ = writeln!(w, "L-{} H steps={} diffs={} wrappers=1 first-difference-at-parse={}", $name, n, diffs, if first == usize::MAX { -1 } else { first as i64 });
        }};
    }
    long!("recursive", parens());
    long!("recursive-boxed", parens().boxed());
    long!("recursive-clone", { let q = parens(); q.clone() });
    long!("declared-mutual", mutual());
    long!("memoized", memo());
    long!("rc", Rc::new(parens()));
    for (name, p) in static_parsers() {
        let pool2: Vec<&'static str> = vec!["", "a", "a,b", "a,b,", "ab", "abc;", "::", "(ab)", "(", "x"];
        let fresh: Vec<String> = pool2.iter().map(|i| run_static(&p, i)).collect();
        let mut diffs = 0usize;
        let mut first: i64 = -1;
        for step in 0..n {
            let i = (step * 3 + step / pool2.len()) % pool2.len();
            let got = run_static(&p, pool2[i]);
            if got != fresh[i] {
                diffs += 1;
                if first < 0 {
                    first = step as i64;
                }
            }
        }
        let _ = writeln!(w, "L-{} H steps={} diffs={} wrappers=1 first-difference-at-parse={}", name, n, diffs, first);
    }
}

pub fn run_threads(nthreads: usize, rounds: usize, w: &mut dyn Write) {
    let pool: Vec<&'static str> = vec!["", "a", "a,b", "a,b,", "ab", "abc;", "::", "(ab)", "(", "x", "a,", "(aab", "é", "abc"];
    for (name, p) in static_parsers() {
        let seq: Vec<String> = pool.iter().map(|i| run_static(&p, i)).collect();
        let seq = Arc::new(seq);
        let pool = Arc::new(pool.clone());
        let mut handles = Vec::new();
        for t in 0..nthreads {
            let p = p.clone();
            let seq = seq.clone();
            let pool = pool.clone();
            handles.push(std::thread::spawn(move || {
                let mut diffs = 0usize;
                let mut steps = 0usize;
                for r in 0..rounds {
                    for k in 0..pool.len() {
                        let i = (k * 7 + t * 3 + r) % pool.len();
                        let got = run_static(&p, pool[i]);
                        steps += 1;
                        if got != seq[i] {
                            diffs += 1;
                        }
                    }
                }
                (steps, diffs)
            }));
        }
        let mut steps = 0;
        let mut diffs = 0;
        for h in handles {
            match h.join() {
                Ok((s, d)) => {
                    steps += s;
                    diffs += d;
                }
                Err(_) => diffs += 1,
            }
        }
        let _ = writeln!(w, "T{}-{} H steps={} diffs={} wrappers=1 threads={}", nthreads, name, steps, diffs, nthreads);
    }
}

pub fn main() {
    chumsky_verif_harness::run::install_panic_hook();
    let args: Vec<String> = std::env::args().collect();
    let seed: u64 = args.get(1).and_then(|s| s.parse().ok()).unwrap_or(1);
    let stdin = std::io::stdin();
    let stdout = std::io::stdout();
    let mut w = std::io::BufWriter::new(stdout.lock());
    for line in stdin.lock().lines() {
        let line = match line {
            Ok(l) => l,
            Err(_) => break,
        };
        if line.trim().is_empty() {
            continue;
        }
        if line.trim() == "WRAPPERS" {
            run_wrappers(&mut w);
            continue;
        }
        if let Some(rest) = line.strip_prefix("LONG ") {
            let n: usize = rest.trim().parse().unwrap_or(3000);
            run_long(n, &mut w);
            continue;
        }
        if let Some(rest) = line.strip_prefix("THREADS ") {
            let mut it = rest.split_whitespace();
            let n: usize = it.next().and_then(|s| s.parse().ok()).unwrap_or(2);
            let rounds: usize = it.next().and_then(|s| s.parse().ok()).unwrap_or(50);
            run_threads(n, rounds, &mut w);
            continue;
        }
        let mut rd = Rd::new(&line);
        match rd.case() {
            Ok(case) => {
                let r = std::panic::catch_unwind(std::panic::AssertUnwindSafe(|| {
                    let mut buf: Vec<u8> = Vec::new();
                    run_case_hist(&case, seed, &mut buf);
                    buf
                }));
                match r {
                    Ok(buf) => {
                        let _ = w.write_all(&buf);
                    }
                    Err(_) => {
                        let _ = writeln!(w, "{} H steps=0 diffs=1 wrappers=0 panic-outside-parse", case.id);
                    }
                }
            }
            Err(e) => {
                let _ = writeln!(w, "ERR {} :: {}", e, line.trim());
            }
        }
    }
    let _ = w.flush();
}
