//! Grammar AST + reader for the case-line format shared with the Lean driver (lean/Main.lean).
//!
//!   <id> <ek> <kind> <mode> <fuel> D <ndefs> G.. M G  I <inputspec>*
//!   inputspec ::= all <maxlen> <k> t1..tk | lit <n> t1..tn

#[derive(Clone, Debug, PartialEq)]
pub enum V {
    Unit,
    Tok(u32),
    Toks(Vec<u32>),
    Nat(u64),
    Tag(u64, Box<V>),
    None,
    Nil,
}

#[derive(Clone, Debug, PartialEq)]
pub enum Pred {
    Always,
    Never,
    TokIs(u32),
    TokNot(u32),
    IsSome,
    IsNil,
}

#[derive(Clone, Debug, PartialEq)]
pub enum MapFn {
    Tag(u64),
    Fst,
    Snd,
    Dup,
    Track,
}

#[derive(Clone, Debug, PartialEq)]
pub enum FoldFn {
    Pair,
    Count,
}

#[derive(Clone, Debug, PartialEq)]
pub enum CfgFn {
    SeqCtx,
    ExactlyCtx,
    AtLeastCtx,
    AtMostCtx,
    Keep,
}

#[derive(Clone, Debug, PartialEq)]
pub enum CtxFn {
    Id,
    Tag(u64),
    LenOf,
}

#[derive(Clone, Debug, PartialEq)]
pub enum Coll {
    Vec,
    String,
    Count,
    Unit,
}

#[derive(Clone, Debug, PartialEq)]
pub enum G {
    End,
    Empty,
    Any,
    Just(Vec<u32>),
    OneOf(Vec<u32>),
    NoneOf(Vec<u32>),
    Select(Vec<u32>),
    CNext(u64),
    /// harness-only: the same as `cnext`, written with `next_maybe` + `peek` + `span_since` / `InputRef::parse` / `InputRef::check`
    CNextMaybe(u64),
    CParse(Box<G>),
    /// `a.map(Some).unwrapped()` / `a.map(Ok).unwrapped()`: the identity on `a`
    UnwrapSome(Box<G>),
    UnwrapOk(Box<G>),
    TryMapSpan(Box<G>),
    CCheck(Box<G>),
    CTake2(u64),
    CNothing,
    CFail(u64),
    Todo,
    Then(Box<G>, Box<G>),
    IgnoreThen(Box<G>, Box<G>),
    ThenIgnore(Box<G>, Box<G>),
    Delim(Box<G>, Box<G>, Box<G>),
    Padded(Box<G>, Box<G>),
    Group(Vec<G>),
    GroupArr(Vec<G>),
    Or(Box<G>, Box<G>),
    ChoiceT(Vec<G>),
    ChoiceS(Vec<G>),
    OrNot(Box<G>),
    Not(Box<G>),
    AndIs(Box<G>, Box<G>),
    Rewind(Box<G>),
    Map(MapFn, Box<G>),
    To(V, Box<G>),
    Ignored(Box<G>),
    Filter(Pred, Box<G>),
    TryMap(Pred, u64, u64, Box<G>),
    TryMapW(Pred, u64, u64, Box<G>),
    ToSpan(Box<G>),
    ToSlice(Box<G>),
    MwSpan(Box<G>),
    MwState(Box<G>),
    MwCtx(Box<G>),
    Validate(Pred, u64, u64, Box<G>),
    Collect(Coll, Box<It>),
    /// harness-only: `a.ignore_with_ctx(it).collect::<Vec<_>>()` / `a.then_with_ctx(it).collect::<Vec<_>>()` — the `IterParser`
    /// impls of the context providers (the model-known equivalents are `iwctx a (collect vec it)` / `twctx a (collect vec it)`)
    CollectIw(Box<G>, Box<It>),
    CollectTw(Box<G>, Box<It>),
    CollectX(usize, Box<It>),
    Foldl(FoldFn, Box<G>, Box<It>),
    Foldr(FoldFn, Box<It>, Box<G>),
    FoldlW(Box<G>, Box<It>),
    FoldrW(Box<It>, Box<G>),
    IterP(Box<It>),
    /// `any_ref()` / `select_ref!` where the input kind implements `BorrowInput` (else the by-value primitive)
    AnyRef,
    SelectRef(Vec<u32>),
    RecVia(Box<G>, Box<G>),
    RecSkip(Box<G>, Box<G>, Box<G>, V),
    RecRetry(Box<G>, Box<G>, Box<G>),
    /// `recover_with(via_parser(nested_delimiters(start, end, others, |span| span)))`: (parser, start, end, [s1, e1, ...])
    RecNd(Box<G>, u32, u32, Vec<u32>),
    Label(u64, bool, Box<G>),
    MapErr(u64, Box<G>),
    WithCtx(V, Box<G>),
    IwCtx(Box<G>, Box<G>),
    TwCtx(Box<G>, Box<G>),
    MapCtx(CtxFn, Box<G>),
    CfgJust(CfgFn, Vec<u32>),
    WithState(Box<G>),
    Memo(u64, Box<G>),
    MemoNest(u64, Box<G>),
    MemoZst(u64),
    Lazy(Box<G>),
    Call(usize),
    Boxed(Box<G>),
}

#[derive(Clone, Debug, PartialEq)]
pub enum It {
    Rep(Box<G>, usize, Option<usize>),
    Sep(Box<G>, Box<G>, usize, Option<usize>, bool, bool),
    Enum(Box<It>),
    OrNotIt(Box<G>),
    IntoIter(Box<G>),
    ThenIt(Box<It>, Box<It>),
    CfgRep(CfgFn, Box<It>),
    TryCfgRep(u64, Box<It>),
}

#[derive(Clone, Copy, Debug, PartialEq, Eq)]
pub enum EK {
    Rich,
    Simple,
    Cheap,
    Empty,
}

#[derive(Clone, Copy, Debug, PartialEq, Eq)]
pub enum Kind {
    Slice,
    Str,
    Mapped(usize),
    Stream,
    MStream(usize),
    /// `&[char; N]`
    Array,
    /// `Stream::boxed()`
    BStream,
    /// `Input::map` over an `IoInput` (ASCII tokens; token `b` gets the span `b..b+1`)
    IoMap,
    /// `.with_context(())` over `&[char]`
    WCtx,
    /// `.map_span(|s| s + 1000)` over `&[char]`
    MSpan,
}

#[derive(Clone, Copy, Debug, PartialEq, Eq)]
pub enum ModeK {
    Parse,
    Check,
}

pub struct Case {
    pub id: String,
    pub ek: EK,
    pub kind: Kind,
    pub mode: ModeK,
    pub fuel: u64,
    pub defs: Vec<G>,
    pub main: G,
    pub inputs: Vec<Vec<u32>>,
}

pub struct Rd<'a> {
    toks: Vec<&'a str>,
    i: usize,
}

type R<T> = Result<T, String>;

impl<'a> Rd<'a> {
    pub fn new(line: &'a str) -> Self {
        Rd { toks: line.split_ascii_whitespace().collect(), i: 0 }
    }
    pub fn new_tokens(toks: &[&'a str]) -> Self {
        Rd { toks: toks.to_vec(), i: 0 }
    }
    pub fn done(&self) -> bool {
        self.i >= self.toks.len()
    }
    pub fn tok(&mut self) -> R<&'a str> {
        let t = self.toks.get(self.i).ok_or("unexpected end of line")?;
        self.i += 1;
        Ok(t)
    }
    pub fn nat(&mut self) -> R<u64> {
        let t = self.tok()?;
        t.parse::<u64>().map_err(|_| format!("expected number, got {t}"))
    }
    fn opt_nat(&mut self) -> R<Option<usize>> {
        let t = self.tok()?;
        if t == "-" {
            Ok(None)
        } else {
            t.parse::<usize>().map(Some).map_err(|_| format!("expected number or -, got {t}"))
        }
    }
    fn boolean(&mut self) -> R<bool> {
        Ok(self.nat()? != 0)
    }
    pub fn nat_list(&mut self) -> R<Vec<u32>> {
        let n = self.nat()?;
        (0..n).map(|_| self.nat().map(|x| x as u32)).collect()
    }
    fn val(&mut self) -> R<V> {
        Ok(match self.tok()? {
            "vunit" => V::Unit,
            "vtok" => V::Tok(self.nat()? as u32),
            "vtoks" => V::Toks(self.nat_list()?),
            "vnat" => V::Nat(self.nat()?),
            "vtag" => {
                let k = self.nat()?;
                V::Tag(k, Box::new(self.val()?))
            }
            "vnone" => V::None,
            "vnil" => V::Nil,
            t => return Err(format!("bad value {t}")),
        })
    }
    fn pred(&mut self) -> R<Pred> {
        Ok(match self.tok()? {
            "always" => Pred::Always,
            "never" => Pred::Never,
            "tokis" => Pred::TokIs(self.nat()? as u32),
            "toknot" => Pred::TokNot(self.nat()? as u32),
            "issome" => Pred::IsSome,
            "isnil" => Pred::IsNil,
            t => return Err(format!("bad pred {t}")),
        })
    }
    fn mapfn(&mut self) -> R<MapFn> {
        Ok(match self.tok()? {
            "tag" => MapFn::Tag(self.nat()?),
            "fst" => MapFn::Fst,
            "snd" => MapFn::Snd,
            "dup" => MapFn::Dup,
            "track" => MapFn::Track,
            t => return Err(format!("bad mapfn {t}")),
        })
    }
    fn foldfn(&mut self) -> R<FoldFn> {
        Ok(match self.tok()? {
            "fpair" => FoldFn::Pair,
            "fcount" => FoldFn::Count,
            t => return Err(format!("bad foldfn {t}")),
        })
    }
    fn cfgfn(&mut self) -> R<CfgFn> {
        Ok(match self.tok()? {
            "seqctx" => CfgFn::SeqCtx,
            "exactlyctx" => CfgFn::ExactlyCtx,
            "atleastctx" => CfgFn::AtLeastCtx,
            "atmostctx" => CfgFn::AtMostCtx,
            "keep" => CfgFn::Keep,
            t => return Err(format!("bad cfgfn {t}")),
        })
    }
    fn ctxfn(&mut self) -> R<CtxFn> {
        Ok(match self.tok()? {
            "id" => CtxFn::Id,
            "ctag" => CtxFn::Tag(self.nat()?),
            "lenof" => CtxFn::LenOf,
            t => return Err(format!("bad ctxfn {t}")),
        })
    }
    fn coll(&mut self) -> R<Coll> {
        Ok(match self.tok()? {
            "vec" => Coll::Vec,
            "string" => Coll::String,
            "count" => Coll::Count,
            "unit" => Coll::Unit,
            t => return Err(format!("bad collkind {t}")),
        })
    }
    fn bg(&mut self) -> R<Box<G>> {
        Ok(Box::new(self.g()?))
    }
    fn bit(&mut self) -> R<Box<It>> {
        Ok(Box::new(self.it()?))
    }
    fn g_list(&mut self) -> R<Vec<G>> {
        let n = self.nat()?;
        (0..n).map(|_| self.g()).collect()
    }
    pub fn g(&mut self) -> R<G> {
        Ok(match self.tok()? {
            "end" => G::End,
            "empty" => G::Empty,
            "any" => G::Any,
            "just" => G::Just(self.nat_list()?),
            "oneof" => G::OneOf(self.nat_list()?),
            "noneof" => G::NoneOf(self.nat_list()?),
            "select" => G::Select(self.nat_list()?),
            "anyref" => G::AnyRef,
            "selectref" => G::SelectRef(self.nat_list()?),
            "cnext" => G::CNext(self.nat()?),
            "cnextmaybe" => G::CNextMaybe(self.nat()?),
            "cparse" => G::CParse(self.bg()?),
            "unwrapsome" => G::UnwrapSome(self.bg()?),
            "unwrapok" => G::UnwrapOk(self.bg()?),
            "trymapspan" => G::TryMapSpan(self.bg()?),
            "ccheck" => G::CCheck(self.bg()?),
            "ctake2" => G::CTake2(self.nat()?),
            "cnothing" => G::CNothing,
            "cfail" => G::CFail(self.nat()?),
            "todo" => G::Todo,
            "then" => G::Then(self.bg()?, self.bg()?),
            "ithen" => G::IgnoreThen(self.bg()?, self.bg()?),
            "theni" => G::ThenIgnore(self.bg()?, self.bg()?),
            "delim" => G::Delim(self.bg()?, self.bg()?, self.bg()?),
            "padded" => G::Padded(self.bg()?, self.bg()?),
            "group" => G::Group(self.g_list()?),
            "grouparr" => G::GroupArr(self.g_list()?),
            "or" => G::Or(self.bg()?, self.bg()?),
            "choicet" => G::ChoiceT(self.g_list()?),
            "choices" => G::ChoiceS(self.g_list()?),
            "ornot" => G::OrNot(self.bg()?),
            "not" => G::Not(self.bg()?),
            "andis" => G::AndIs(self.bg()?, self.bg()?),
            "rewind" => G::Rewind(self.bg()?),
            "map" => G::Map(self.mapfn()?, self.bg()?),
            "to" => G::To(self.val()?, self.bg()?),
            "ignored" => G::Ignored(self.bg()?),
            "filter" => G::Filter(self.pred()?, self.bg()?),
            "trymap" => G::TryMap(self.pred()?, self.nat()?, self.nat()?, self.bg()?),
            "trymapw" => G::TryMapW(self.pred()?, self.nat()?, self.nat()?, self.bg()?),
            "tospan" => G::ToSpan(self.bg()?),
            "toslice" => G::ToSlice(self.bg()?),
            "mwspan" => G::MwSpan(self.bg()?),
            "mwstate" => G::MwState(self.bg()?),
            "mwctx" => G::MwCtx(self.bg()?),
            "validate" => G::Validate(self.pred()?, self.nat()?, self.nat()?, self.bg()?),
            "collect" => G::Collect(self.coll()?, self.bit()?),
            "collectx" => G::CollectX(self.nat()? as usize, self.bit()?),
            "collectiw" => G::CollectIw(self.bg()?, self.bit()?),
            "collecttw" => G::CollectTw(self.bg()?, self.bit()?),
            "foldl" => G::Foldl(self.foldfn()?, self.bg()?, self.bit()?),
            "foldr" => G::Foldr(self.foldfn()?, self.bit()?, self.bg()?),
            "foldlw" => G::FoldlW(self.bg()?, self.bit()?),
            "foldrw" => G::FoldrW(self.bit()?, self.bg()?),
            "iterp" => G::IterP(self.bit()?),
            "recvia" => G::RecVia(self.bg()?, self.bg()?),
            "recskip" => G::RecSkip(self.bg()?, self.bg()?, self.bg()?, self.val()?),
            "recretry" => G::RecRetry(self.bg()?, self.bg()?, self.bg()?),
            "recnd" => {
                let a = self.bg()?;
                let _k = self.nat()?; // index of the model's definition of the recursive block; the real function builds its own
                let s = self.nat()? as u32;
                let e = self.nat()? as u32;
                G::RecNd(a, s, e, self.nat_list()?)
            }
            "ndblock" => {
                // the model's spelled-out recursive block of `nested_delimiters`: never called on this side
                let (_k, _s, _e, _l) = (self.nat()?, self.nat()?, self.nat()?, self.nat_list()?);
                G::Empty
            }
            "label" => G::Label(self.nat()?, self.boolean()?, self.bg()?),
            "maperr" => G::MapErr(self.nat()?, self.bg()?),
            "withctx" => G::WithCtx(self.val()?, self.bg()?),
            "iwctx" => G::IwCtx(self.bg()?, self.bg()?),
            "twctx" => G::TwCtx(self.bg()?, self.bg()?),
            "mapctx" => G::MapCtx(self.ctxfn()?, self.bg()?),
            "cfgjust" => G::CfgJust(self.cfgfn()?, self.nat_list()?),
            "withstate" => G::WithState(self.bg()?),
            "memo" => G::Memo(self.nat()?, self.bg()?),
            "memonest" => G::MemoNest(self.nat()?, self.bg()?),
            "memozst" => G::MemoZst(self.nat()?),
            "lazy" => G::Lazy(self.bg()?),
            "call" => G::Call(self.nat()? as usize),
            "boxed" => G::Boxed(self.bg()?),
            t => return Err(format!("bad grammar token {t}")),
        })
    }
    pub fn it(&mut self) -> R<It> {
        Ok(match self.tok()? {
            "rep" => It::Rep(self.bg()?, self.nat()? as usize, self.opt_nat()?),
            "sep" => It::Sep(
                self.bg()?,
                self.bg()?,
                self.nat()? as usize,
                self.opt_nat()?,
                self.boolean()?,
                self.boolean()?,
            ),
            "enum" => It::Enum(self.bit()?),
            "ornotit" => It::OrNotIt(self.bg()?),
            "intoiter" => It::IntoIter(self.bg()?),
            "thenit" => It::ThenIt(self.bit()?, self.bit()?),
            "cfgrep" => It::CfgRep(self.cfgfn()?, self.bit()?),
            "trycfgrep" => It::TryCfgRep(self.nat()?, self.bit()?),
            t => return Err(format!("bad iter token {t}")),
        })
    }
    pub fn inputs(&mut self) -> R<Vec<Vec<u32>>> {
        let mut out = Vec::new();
        while !self.done() {
            match self.tok()? {
                "all" => {
                    let max_len = self.nat()? as usize;
                    let alpha = self.nat_list()?;
                    all_strings(&alpha, max_len, &mut out);
                }
                "lit" => out.push(self.nat_list()?),
                t => return Err(format!("bad input spec {t}")),
            }
        }
        Ok(out)
    }
    pub fn case(&mut self) -> R<Case> {
        let id = self.tok()?.to_string();
        let ek = match self.tok()? {
            "rich" => EK::Rich,
            "simple" => EK::Simple,
            "cheap" => EK::Cheap,
            "empty" => EK::Empty,
            t => return Err(format!("bad error kind {t}")),
        };
        let kind = match self.tok()? {
            "slice" => Kind::Slice,
            "str" => Kind::Str,
            "mapped0" => Kind::Mapped(0),
            "mapped1" => Kind::Mapped(1),
            "mapped3" => Kind::Mapped(3),
            "stream" => Kind::Stream,
            "array" => Kind::Array,
            "bstream" => Kind::BStream,
            "iomap" => Kind::IoMap,
            "wctx" => Kind::WCtx,
            "mspan" => Kind::MSpan,
            "mstream0" => Kind::MStream(0),
            "mstream1" => Kind::MStream(1),
            "mstream3" => Kind::MStream(3),
            t => return Err(format!("bad input kind {t}")),
        };
        let mode = match self.tok()? {
            "parse" => ModeK::Parse,
            "check" => ModeK::Check,
            t => return Err(format!("bad mode {t}")),
        };
        let fuel = self.nat()?;
        if self.tok()? != "D" {
            return Err("expected D".into());
        }
        let defs = self.g_list()?;
        if self.tok()? != "M" {
            return Err("expected M".into());
        }
        let main = self.g()?;
        if self.tok()? != "I" {
            return Err("expected I".into());
        }
        let inputs = self.inputs()?;
        Ok(Case { id, ek, kind, mode, fuel, defs, main, inputs })
    }
}

/// all strings over `alpha` of length 0..=max_len: by length, then lexicographic in alphabet order
pub fn all_strings(alpha: &[u32], max_len: usize, out: &mut Vec<Vec<u32>>) {
    for len in 0..=max_len {
        if alpha.is_empty() && len > 0 {
            continue;
        }
        let mut idx = vec![0usize; len];
        loop {
            out.push(idx.iter().map(|&i| alpha[i]).collect());
            let mut p = len;
            let mut carry = true;
            while carry && p > 0 {
                p -= 1;
                idx[p] += 1;
                if idx[p] < alpha.len() {
                    carry = false;
                } else {
                    idx[p] = 0;
                }
            }
            if carry {
                break;
            }
        }
    }
}
